#!/usr/bin/env python3
"""Regenerates section 11 ("As built") of /verif/DESIGN.md: the prose below plus
tables generated from KNOWN_FINDINGS.txt, /verif/seeded/*/meta.json and
/verif/MANIFEST.json. Everything from the marker line to the end of the file is
replaced."""
import json, glob, os, re, subprocess

MARK = "## 11. As built"
p = '/verif/DESIGN.md'
s = open(p).read()
if MARK in s:
    s = s[:s.index(MARK)]
s = s.rstrip('\n') + '\n\n'

known = [l for l in open('/verif/KNOWN_FINDINGS.txt') if l.startswith('KNOWN-FINDING:')]
fixed = [l for l in open('/verif/KNOWN_FINDINGS.txt') if l.startswith('fixed:')]
seeded = []
for d in sorted(glob.glob('/verif/seeded/*/')):
    m = json.load(open(d + 'meta.json'))
    c = m.get('confirmed_by_me', {})
    seeded.append((os.path.basename(d[:-1]), c.get('caught_by', ''), bool(c.get('initially_missed')), (m.get('title') or '').replace('|', '/'), c.get('note', '').replace('|', '/'), c.get('later', '')))
nmiss = sum(1 for x in seeded if x[2])

out = []
w = out.append
w(f"""{MARK}

This section describes the machinery as it exists in `/verif` at the end of the
build round. It replaces the plans of sections 3.7, 5 (process kept, results
here) and 9.

### 11.1 Layout and commands

* `/verif/harness` - one Go program (standard library only), built by the
  manifest's `setup_cmd` into `/verif/bin/verif`.
  `verif check <Cxx> --tier quick|thorough` runs one check and writes
  `/verif/evidence/<Cxx>.json` and, for every violation, a replay directory
  `evidence/replay/<Cxx>/<hash>/violation.json`; `verif replay <dir>` re-judges
  one recorded case on the plain binary; `verif golden` runs the 585 recorded
  golden programs of `/repo/test` against a freshly built `ti` (my gate for
  every `fix:` commit, stricter than the official baseline, which never builds
  `ti`); `verif gen` prints generated programs. `VERIF_SEED` selects the case
  list (every case list is a pure function of the seed: no wall-clock budgets),
  `VERIF_REPO` the tree to build (default `/repo`, always its current working
  tree), `VERIF_WORKERS` the number of lanes.
* Every check builds `ti` (plain), `ti` with `-tags verif`, and on demand the
  race build and the two converters, from the working tree into a scratch
  directory under `/dev/shm` that is removed on exit. Nothing a registered
  command needs lives under `/tmp`.
* Exit status: 0 held, 1 at least one `VIOLATION property=<id> replay=<path>`
  line, 2 inconclusive (build failure, too few events). `KNOWN-FINDING:` lines
  are printed for listed findings and do not change the status.
* `/verif/KNOWN_FINDINGS.txt` - listed findings and `fixed:` records;
  `/verif/findings/<name>/violation.json` - the witness of each listed finding;
  `/verif/seeded/<name>/` - seeded changes (patch, demonstration, meta.json);
  `/verif/tools/try_seeded.sh` applies one to a scratch worktree and runs the
  named checks against it.

### 11.2 The explorer/judge split, as built

The verif-tagged `ti` has a serve mode (`TI_VERIF_SERVE=1`, JSON lines on
stdin/stdout, operations `run`, `lex`, `ping`) that analyses one input per
request inside one process: global state is snapshotted once after the
configuration is loaded and restored before every request by a reflection-based
deep copy of the registered package-level roots (`verifhook.Register`), about
3.5 ms per request instead of 12-25 ms per process. This driver only
*explores*. Every candidate violation is re-run on the plain binary in a fresh
process (`BlackBox`), and only that result is reported. Because the driver
restates `main()`'s round loop (a change to the real loop would be invisible to
it), a fixed share of all relational and model cases - every 14th, every 5th
for C18 whose subject lives in `main()` - is judged on the plain binary
directly, never touching the driver; evidence reports the count
(`cases_judged_blackbox_directly`) and the number of driver/binary
disagreements (`driver_divergence`, never a violation by itself).

Hangs are decided on logical steps: `verifhook.EOFRead()` (reader at end of
input) and `verifhook.Token()` (parser token fetch) count against budgets
5000+50n and 20000+400n (n = input bytes; measured legitimate maxima are in
every evidence file as `step_max`, two orders of magnitude below); a third
counter, `verifhook.Walk()` (one ancestor-list expansion in `base.parentNodes`),
was added when a seeded change made a lookup walk exponential in the depth of an
include lattice without fetching a single token (family `inheritance-lattice`).
Its budget started at 50x the token budget and is 4x now: a later seeded change
needed only four million expansions to reach ti's own 500 ms watchdog, below the
first budget; the measured legitimate maximum (a lattice of depth 23 looked up a
dozen times, 320 000 expansions) is a quarter of the new one, and a tripped
budget is only one of the two keys of a hang verdict. A hang needs
the tripped budget (or death by stack exhaustion) in-process AND 3 of 3
`timeout` outputs of the plain binary while all lanes are paused. The harness's
own wall clocks (12 s in-process, 20 s black-box) only produce `inconclusive`.
ti's own 500 ms watchdog prints `timeout` when the machine is loaded (the
seeded-change agents did load it): a black-box output with a `timeout` line
anywhere in it (the watchdog goroutine prints while `main` may still be
printing) is never compared; it is retried or skipped and counted.

### 11.3 What each check does (deltas from section 4)

| id | oracle kind | what is generated / observed (quick tier per seed) |
|---|---|---|
| C01 | process boundary | ~8100 runs: hostile endings, stray quotes, corpus prefixes, token mutations, generated programs, `ti f` and `ti f -i`; families added later: `inheritance-lattice`, `size-boundary` (one large thing per program: 7..130 elements, block parameters, arguments, parameters, keywords, chain links, nesting levels, union members, branches, ancestors), `alias-chains` (unassigned names assigned from one another, swap cycles, rho shapes), `cycle-with-receiver` (include/extend/superclass cycles and a value of a class that reaches them), `partial-config` (the shipped configuration minus one of the 20 methods ti evaluates with a strategy of its own, or minus its class file); crash = panic/fatal/exit 2, malformed line = grammar of section 4 |
| C02 | logical watchdog + black-box timeout | same families (the fixed hostile list has include/extend/superclass cycles) |
| C03 | lexer probe hook | all strings of length <= 4 over 24 hostile symbols (quick), Unicode category representatives, corpus prefixes: termination within budget, full consumption, token count <= 2n+2 |
| C04 | process boundary per mode | `--suggest/--hover/--define` with `--row` inside, at, and beyond the file; record grammar per mode; the cycle and partial-config families put the row on the receiver / on the row that uses the missing method |
| C05 | repeated runs | 13 modes x corpus/generated/tie programs (ties: one method name in several frames, class names equal under case folding, one short class name in namespaces of equal name length, one call with several owner classes), 3-6 fresh processes each with different GOMAXPROCS/GOGC, byte equality (set equality for `--define`); race build in thorough |
| C06 | relational (layout) | blank lines, comment lines, two of them, three-line =begin/=end blocks at safe boundaries, final newline dropped/doubled, string literals widened by a real newline or a backslash-newline: rows map, everything else equal; adjacency family (`c06adj.go`): 38 complete statements x 28 following statements whose first token could continue an expression (`if`/`unless`/`while`/`until`, `[`, `(`, `!`, literals) plus 16 body headers (`in`/`when`/`else`/`rescue`/`do`/`def` ...) x the same 28, the line inserted exactly between the two (300 random pairs quick, all pairs thorough) |
| C07-C09 | reference model | `typed.go`: 320 generated programs over the shipped and 4 generated configurations: literals, ternary unions, reassignment, array/hash literals (nested too), indexing, push/<< growth, calls (own, inherited, Object methods, keywords, overloads, union receivers, Untyped members, multi-line argument lists and blocks, calls nested in if/unless/while/elsif/blocks); model `cfgmodel.go` = documented meaning of .ti-config; C07 certain-fail rows need a diagnostic on the row the call starts on, C08 certain-ok rows need none, C09 probes compared as type sets (nested arrays as (depth, class) pairs); string literal texts that look like other tokens (`"*star"`, `"&blk"`, `"**kw"`, `":sym"`, `"12"`); `Hash#delete` on hashes with several value classes; a printed union with a union inside is a violation by itself (`union-not-flat`) |
| C10 | reference model | 300 programs, ~10k probes: if/unless/elsif/else nested to depth 3, `x.nil?`, `!x.nil?`, `x.is_a?(C)`, && chains over distinct and the same variable, unrelated statements and inner conditionals, also inside a method; variants include `Array<..>` and `Hash`; one condition in five does not split the variants (class test of an already narrowed variable, `nil?` of a non-nil one, `is_a?` of a foreign class: only the side keeping every variant is judged); one program in four uses global variables tested in a top-level, instance or class method |
| C11 | relational (independence) | insertion of independent fragments (17 kinds, must be diagnostics-free alone; `raise` and `return` fragments at top-level boundaries only) before real statements of hosts (26 state-sensitive statement shapes, each paired with each fragment kind); host rows map, host output equal |
| C12 | state-invariant hook | the rendered builtin table (`base.VerifDumpBuiltin`) before and after analysing sweep programs that call every configured method through every strategy |
| C13 | relational (renaming) | consistent renaming of locals, ivars, methods, classes, keywords to fresh names of the same kind (1, 2, 8, 30 characters; leading/trailing underscore, digits, inner capital, acronym-prefixed class names); 18 binding-form templates (array/class/hash patterns, block parameters, multiple and or-assignment, for, rescue, parameters, shadowing, classes referenced by `new`, class method, namespace, superclass) |
| C14 | relational (keyword order) | permutations of keyword arguments at call sites of user and configured methods, union/nilable receivers, expression values; methods with `**opts` that print everything derived from the hash; shorthand keywords (`name:`); one argument per line |
| C15 | reference model | 300 programs: 1-4 user methods (top/instance/class; positional, default, 1-2 keywords), 1-5 call sites (before/after the def, inside other methods, through a caller's parameter, as an expression on it), body probes, -i signature, --hover; explicit `return` in nine positions (modifier, inside if/while/case/block, bare); bodies ending in an instance of a top-level or namespaced user class |
| C16 | reference model | 300 hierarchies: depth 0-3, modules included/extended, def self./class << self, reopenings, namespaces 1-4 deep with the superclass in an enclosing one, initialize arity, private/protected (also from modules), names colliding with configured classes of other frames; visibility given by section keyword, by `private def m`, or by `private :m` after the definition |
| C17 | reference model | 300 programs, ~3800 probes: block calls (do/end, braces) on arrays, hashes, integers, strings, ranges, with and without arguments, generated configured classes; 0-3 parameters, shadowing, nesting, block locals; an outermost block outside a method ends one time in three in a reported statement (undefined method, Integer + String) |
| C18 | relational (preload split) | a program split at nesting-aware top-level boundaries into 1-3 preloaded files + target vs. the whole program; one list in eight also names a file that does not exist; one case in five black-box direct |
| C19-C21 | relational (configuration pairs) | `cfgrel.go`: renamed shipped files, classes split over files (`extends` in one or all parts, overloads kept together), extra unmentioned classes (fresh, namespaced, reusing user-class, module, core-class short names, forward-referenced superclasses), long vs compact notation (unions up to four members, Untyped members, optional/rest parameters and nilable returns of a class of another namespace, arrays of arrays); the listed split-overloads finding is told apart by a third configuration (section 11.6) |
| C12 (added) | state-invariant hook | besides the shipped configuration: generated configurations (keywords in any order and in front of positionals) whose every method is called and then redeclared in a subclass with the same keyword names; subclasses of `Test` and `Dir` redeclaring their keyword methods |
| C22 | reference model over -i / --define / --hover | 150 programs, ~1800 runs: def rows, c//i/ tags, visibility in effect (sections, class << self with own sections, nested classes), endless and two-line defs, every call row hovered |
| C23 | reference model over --suggest | ~240 queries: user hierarchies with unique names (include, extend, both, module functions, factories in a foreign class; part of the chain in another namespace than its superclass, mixins named `Drawing::Mixa`, a singleton block inside a private section), core literals (also of a core class the program reopens), generated configured classes; the cursor on the last row or inside a method body (`obj.`, `Klass.`, `self.` in instance and class methods) |
| C24 | reference model over --llm-nav | 120 programs, ~800 queries: call sites as multisets of (row, enclosing method, class), totals, callees |
| C25 | converter monitor | generated RBS AST documents through a stand-in `ruby` (1-3 overloads, keywords whose names differ in case only, a class method with one keyword declared three ways); 6 conversions each (bytes equal), emitted shape vs declaration, arity through ti on untyped- and nested-class-typed parameters, with and without the required keywords |
| C26 | converter monitor | generated C sources (MRB_ARGS specs, mrb_get_args formats, mrbc argc guards ascending, descending or as an else-if chain) vs ti's acceptance of 0..6 arguments |
| C27 | relational (namespace wrap) | class groups at top level vs wrapped in 1-2 modules with qualified outside references, decoy classes of the same short names for every class (the decoy is called too); every class answers `common`, called on a union of two classes of the group; a rest-parameter method called from outside and, without receiver, from inside |

Thorough tiers run the same generators with 10-30x the case count (and the race
build for C05); they are what `vp run` was used for.

### 11.4 Tools of this family that do not apply, and why

* **Go race detector**: ruby-ti has exactly one extra goroutine (the 500 ms
  watchdog in `main`), which shares nothing but `os.Exit`. The race build is
  run by C05's thorough tier over the determinism workload (it reported
  nothing); it decides no property by itself.
* **porcupine / linearizability checking**: there is no concurrent object and no
  history of overlapping operations; every analysis is one sequential batch
  run. Not used.
* **gofail failpoints**: the properties are about pure functions of (files,
  configuration, flags); there are no suspension points between critical
  sections to widen and no I/O errors a property speaks about. The only
  injected "fault" that matters is end of input at every byte offset, which the
  prefix families produce directly. Not used.
* **valgrind / ASan / MSan / UBSan**: no cgo, no native code; Go's own bounds
  and nil checks turn memory errors into panics, which C01/C04 observe at the
  process boundary. Not used.
* **strace**: used once by hand to confirm that `ti` reads `.ti-config` from
  the working directory only; no check depends on it.

### 11.5 False alarms corrected (the check was wrong, ruby-ti was right)

* C04: my record grammar rejected `%Name:::Name` class-list lines of
  `--suggest` on a bare constant; grammar corrected.
* C02/C04: `[` x 3000 stalls for seconds (quadratic deep copies, finite); a
  stall under the harness wall clock is `inconclusive`, never a hang.
* C11: erroneous fragments abort the enclosing body by error recovery, and a
  fragment inserted before a comment or blank line became the body's last
  statement (changing the body's value): fragments must be diagnostics-free
  alone and boundaries must precede a real statement.
* C18: a split inside a class body at a column-0 comment; splits are now
  nesting-aware.
* C13: "fresh" names that coincided with a name of another kind (a method named
  like an ivar's spelling) are beyond the property's "fresh name"; removed.
* C25: the model treated `?nil` as optional-of-nil, judged type mismatches as
  arity, and raced on the stand-in `ruby`; arity is judged only on methods
  whose parameters are all untyped (or all of one nested class), the stand-in
  is created once.
* C05: an output with ti's own `timeout` line in the middle of the records was
  compared with a complete one; such outputs are now recognised anywhere in the
  text.
* C20: a family that redefined a CONSTANT with the short name of a configured
  class of another frame; the property speaks of names "the program never
  mentions" and of user-defined classes, a constant mentions the name: removed.
* C17: a generated configured method with two overloads of identical
  parameters but different block_parameters; overload choice is C07-C09's
  subject, such methods are skipped.
* C09 (thorough tier): with overloads `m(Float, Symbol, *Integer)` and
  `m(Float, Symbol|Untyped)` and an argument of type `Symbol|Float`, ti takes
  the first declaration (a union argument is accepted when one of its classes
  fits), the model took the second (all classes fit). The statement does not
  say which declaration answers: the return type is grey when an earlier
  declaration accepts part of a union argument. (The call itself stays
  certain-ok for C08.)
* C11: `raise` and `return` fragments inserted INSIDE a method body changed the
  method's signature (`-> Union<Bot NilClass>`): that is what these statements
  mean there, not interference; they are judged at top-level boundaries only.
* C17 (design decision, not an alarm): a reported statement inside a block
  abandons the enclosing bodies (ti's error recovery), so after it nothing
  inside them is judged; only the probes after the outermost block are.
* C10: the generator wrapped `class Foo; end` into the method body together
  with the statements (a class definition in a method body is not Ruby); class
  declarations stay at top level.
* C15/C23/C16: generator mistakes found on first runs (top-level locals used
  inside `def`, skipped default positionals shifting later arguments, a module
  both included and extended making a name both an instance and a class
  method, `new` with surplus arguments judged without an `initialize`).

### 11.6 Defects of ruby-ti found by the checks

"""+str(len(fixed))+""" were repaired, each by one unguarded `fix:` commit in `/repo` (gate: `go
build ./...`, the official baseline with the tag off, and all 585 golden
programs with `ti` built); they are recorded as `fixed:` lines in
`KNOWN_FINDINGS.txt` and suppress nothing. By property that exposed them:
""")
byprop = {}
for l in fixed:
    m = re.match(r'fixed: property=(\S+) (\S+) (.*)', l.strip())
    byprop.setdefault(m.group(1), []).append((m.group(2), m.group(3)))
for pid in sorted(byprop):
    w(f"* **{pid}** ({len(byprop[pid])}): " + '; '.join(f"{t} (`{h}`)" for h, t in byprop[pid]) + ".")
w(f"""
The larger repairs deserve a word, because "small and safe" was a judgement:

* *Narrowing (C10, `4893375`)*: three defects shared one bookkeeping
  (`narrowTs`/`ifNarrowTs`): the false side of `a && b` narrowed both
  variables, `elsif` started from the pre-conditional type, and variables
  narrowed by an `elsif` were never restored. The lookahead now only collects
  the tests and one function works out both sides; seven golden programs pin the
  project's conventions for `==` terms and `||` chains, and the rewrite keeps
  all of them (that is why `x == v` narrows only the `if` branch and is
  ignored on the false side).
* *Inferred parameter types (C15, `8875e07` then `df49843`)*: the first call
  evaluated in a round replaced the parameter type. Keeping everything for ever
  (first repair) let first-round placeholders stay; the second repair keeps the
  call sites of the previous and the current round (a per-class round tag that
  expires). C15 found the flaw of the first repair itself at another seed.
* *Call graph (C24, `05883c5`)*: calls without a receiver were filed under no
  class, inherited calls under the receiver's class, condition calls twice.
* *Completion (C23)*: three repairs; one defect is listed instead (below).

{len(known)} defects are **listed, not repaired** (`KNOWN-FINDING:` lines, witnesses
under `/verif/findings/`):
""")
for l in known:
    m = re.match(r'KNOWN-FINDING: property=(\S+) sig="([^"]*)" witness=(\S+) (.*)', l.strip())
    w(f"* **{m.group(1)}** `{m.group(2)}`: {m.group(4)}")
w("""
A listed finding must not hide other defects of the same family. The C19
signature used to cover every difference in the split-overloads family; a
seeded change (parameter ids numbered per file) hid behind it. The family now
runs a third configuration - ONE file with each method's declarations in the
order the split files' names induce - and a difference counts as the listed
finding only if the split configuration behaves exactly like that single file
(event `split_overloads_explained_by_order`); anything else is reported as
`...:not-explained-by-declaration-order:<diff>`. What remains hidden, by
construction, is a defect whose only effect is to make one more observable
depend on which declaration comes first (seeded change
C19-empty-args-test-ignores-overloads): C19 cannot tell it from the listed
finding; C08 and C09 catch it as a false alarm and a wrong return type.

The C07 finding (calls without parentheses to parameterless methods) has one
signature of its own (`missed:arity:no-parens:parameterless-method`), assigned
when every declaration of the called method has no parameters; calls without
parentheses to any other method keep their ordinary signatures.

Why not repaired: the C07 finding conflicts with eight golden expectations
(user methods whose parameters are still unknown in the first rounds look
parameterless; `[1].each "a"` is frozen as a Block type mismatch). The C19/C25/C26 findings need a different parameter binding
strategy (trailing positionals after optional ones, one stored parameter entry
per keyword name across overloads, a primary overload chosen by load order):
not a few lines. The C23 finding is one line, but ten of the project's own
golden expectations record exactly the defective output.

Observations outside the 27 properties, not judged by any check: a method named
like the spelling of an ivar changes the output; a line starting with an
operator binds to the previous statement's value; compact notations combined
with each other (`?A|B`, `*A|B`) do not mean what their long forms mean (C21
speaks of each notation by itself); a call inside string interpolation is text
to the tokenizer, so `--hover` on such a row shows nothing; `--hover` shows the
last call evaluated on the row (the operator in `if m(1) > 2`), which C22 judges
only on rows where the user method's call is that last call; `attr_writer` is
not implemented (`attr_accessor` and `attr_reader` are); comparison operators
written without surrounding spaces (`a<b`) are one token. Three earlier entries
of this list became findings of a check and were repaired: one-letter class
names in qualified references (C13), the 2^depth walk over a diamond of
includes (C02), `--hover` with preloaded files (C18).

### 11.7 Seeded changes: which check catches what
""")
w(f"""For every property fresh sub-agents (given only the property text and a scratch
worktree) produced two changes (a second round, told what the first had
produced, for C06, C09, C10, C12, C16, C17, C22, C24; a third for the others) that break the property, compile and keep all
585 golden programs green. Each was confirmed in a scratch worktree (patch
applies, golden runner 585/585, demonstration passes without and fails with the
change) and then the property's check (quick tier, seed 1) was run against the
changed tree. {len(seeded)} changes are kept under `/verif/seeded`; {nmiss} of them were
**missed at first**, and the check was strengthened until it caught them (the
note says how). All {len(seeded)} are caught now. Changes whose patch stopped applying
after a later `fix:` commit were re-expressed on the new code (suffix 2 in the
record's history); one (C19-edges-before-methods) lost its effect because the
repair found by C19 itself removed the mechanism it relied on.

| seeded change | caught by | first run | what it is / what was strengthened |
|---|---|---|---|""")
for name, by, missed, title, note, later in seeded:
    txt = title
    if missed:
        txt += " - **" + note + "**"
    if later:
        txt += " - " + later
    w(f"| {name} | {by} | {'missed' if missed else 'caught'} | {txt} |")
w("""
Lessons that changed the generators more than once: (1) every generated call
was one line and had positional arguments only, so everything about keywords,
multi-line calls and blocks with arguments was invisible; (2) unions had two
members, so subset/superset confusions were invisible; (3) generated classes
never redeclared a method of Object or of a core class, so lookup-order and
frame-confusion defects were invisible; (4) namespaces were one level deep;
(5) the in-process driver cannot see `main()`, hence the black-box share;
(6) every generated program analysed cleanly, so scope handling on the error
path was invisible (C17); (7) statements were never placed next to each other
by kind, so parser state leaking over a line end was invisible (C06 adjacency:
it also found a genuine defect after `in Pattern => v`); (8) every test split
the variants and every variable was a local (C10); (9) a listed finding with a
family-wide signature hides every other defect of the family (C19); (10) the
third round, for the properties that had had one round only, was missed 30
times out of 38 at first: calls without parentheses, union arguments that are
strict subsets of a parameter union, methods declared twice with a
parameterless declaration first or last, chains of depth two under a
redeclared Object method (C07/C08); fragments that raise, return or call an
operator on a union (C11); names of unusual shape and locals bound by patterns
(C13); **opts, shorthand keywords and one-argument-per-line calls (C14);
methods returning instances (C15); a preload list naming a missing file (C18);
namespaced includers and sibling superclasses (C20); ancestors in another
namespace, singleton blocks in private sections, reopened core classes and a
cursor inside a method body (C23); one large thing per program - 21 elements,
33 parameters, 64 keywords (C01); unassigned names chained into a swap cycle
(C02); include cycles with the query row on a receiver, and the shipped
configuration minus one method (C04); ties between namespaces of equal name
length and between the owners of one call (C05); namespaced and nested types
(C21); case-variant keywords, three overloads, omitted required keywords (C25);
descending argc guards (C26); union receivers and rest parameters inside a
namespace (C27). Eleven of these extensions exposed genuine defects of the
unchanged tree, repaired as `fix:` commits. (11) A last round for the eight
properties that had had two: 11 of 16 missed at first - class-body statement
pairs (C06), merge on a variable receiver and configurations in compact
notation (C09), two user classes in one union (C10), generated configurations
and subclasses that redeclare configured methods (C12: the shape exposed a
genuine defect, and its repair took the seeded change's effect away),
`initialize` inside a private section (C16), empty receivers (C17), a preloaded
file with the target's base name (C22, caught by C18), cross-namespace
subclasses and endless method bodies (C24). (12) Between the rounds I wrote
small Ruby programs by hand in the idioms a user of the properties would write
(bare `return`, `private def`, `private :m`, reopened `String`, `self.` in a
class method, shorthand keywords, `def initialize(a, *rest, **opts)`, `def
size=(v)`, `def <(other)`, `v = begin ... rescue ... end`, method bodies with
their own rescue clause). Wherever ti got one wrong, the idiom first went into
the generator of the property it belongs to, the check was confirmed to report
it on the unchanged tree, and only then was ti repaired: 11 `fix:` commits came
about that way.

### 11.8 Self-validation performed

* Every check was run on the unchanged tree at several `VERIF_SEED` values
  (quick) and once or more in the thorough tier; a check that alarmed was
  triaged as above before anything else was built on it.
* `vp check` (fresh copy, setup + every quick command) was run after each batch
  of new checks.
* At the end every kept seeded change was applied once more to the FINAL tree
  (`tools/recheck_seeded.sh`: scratch worktree, build, the named check at the
  quick tier, seed 1, signatures compared with those of the unchanged tree):
  114 of 126 are reported at that one seed. Of the other 12, five patches no
  longer apply because a later `fix:` commit rewrote their lines; four have
  lost their effect (their own demonstrations pass with the patch applied)
  because a later repair removed the mechanism they relied on - one of them is
  still reported by C04 for what is left of it; three are drawn too rarely for
  seed 1 of the quick tier and are reported at other seeds and by the thorough
  tier. Each record says which.
* Evidence files record, per run: evaluations, distinct non-trivial cases,
  event counters (probes judged per kind, black-box runs, driver divergences,
  skipped cases), step maxima, samples of the generated inputs, the rule in
  words and the assumptions the oracle trusts.
""")
open(p, 'w').write(s + '\n'.join(out) + '\n')
print('seeded', len(seeded), 'missed', nmiss, 'fixed', len(fixed), 'known', len(known))
