#!/usr/bin/env python3
"""Ad-hoc structure-aware minimiser for C18 witnesses (investigation aid)."""
import json,sys,subprocess,os,re,tempfile
v=json.load(open(sys.argv[1])); c=v['case']; ti=sys.argv[2]
d=tempfile.mkdtemp(dir='/dev/shm'); os.symlink('/repo/test/.ti-config',d+'/.ti-config')
def run(files,preload):
    for n,s in files.items(): open(d+'/'+n,'w').write(s)
    lp=d+'/.ti-loader.json'
    if preload: open(lp,'w').write(json.dumps({'preload':preload}))
    elif os.path.exists(lp): os.remove(lp)
    p=subprocess.run([ti,'main.rb']+c['mode'],cwd=d,capture_output=True,text=True,timeout=20)
    return None if p.returncode!=0 else p.stdout
def recs(out):
    r=[]
    for l in out.splitlines():
        m=re.match(r'^(@?)([^:\n]+):::(\d+):::(.*)$',l)
        if m: r.append((m.group(1),int(m.group(3)),m.group(4)))
    return r
lines=[]; cuts=[]
for p in c['parts'][:-1]:
    lines+=p.rstrip('\n').split('\n'); cuts.append(len(lines))
lines+=c['parts'][-1].rstrip('\n').split('\n')
def violates(lines,cuts):
    whole='\n'.join(lines)+'\n'
    o1=run({'main.rb':whole},None)
    files={}; pl=[]; prev=0
    for i,cu in enumerate(cuts):
        files['pre%d.rb'%(i+1)]='\n'.join(lines[prev:cu])+'\n'; pl.append('pre%d.rb'%(i+1)); prev=cu
    files['main.rb']='\n'.join(lines[prev:])+'\n'
    o2=run(files,pl)
    if o1 is None or o2 is None: return False
    off=cuts[-1]
    want=[(h,r-off,m) for (h,r,m) in recs(o1) if r>off]
    return want!=recs(o2)
assert violates(lines,cuts)
opener=re.compile(r'^\s*(def|class|module|if|unless|while|until|case|loop|begin|for)\b|\bdo(\s*\|[^|]*\|)?\s*$|\{\s*\|[^|]*\|\s*$')
closer=re.compile(r'^\s*(end|else|elsif|when|in|rescue|ensure|\})')
def unit(host,i):
    l=host[i]
    if closer.match(l): return None
    if opener.search(l) and not re.search(r'\bend\s*$',l):
        ind=len(l)-len(l.lstrip())
        for j in range(i+1,len(host)):
            lj=host[j]
            if lj.strip()=='' : continue
            if len(lj)-len(lj.lstrip())==ind and re.match(r'^\s*(end\b|\})',lj): return (i,j+1)
            if len(lj)-len(lj.lstrip())<ind: return None
        return None
    if re.search(r'(=|,|\\|\()\s*$',l): return None
    return (i,i+1)
changed=True
while changed:
    changed=False; i=0
    while i<len(lines):
        u=unit(lines,i)
        if u is None: i+=1; continue
        if any(u[0]<cu<u[1] for cu in cuts): i+=1; continue
        l2=lines[:u[0]]+lines[u[1]:]; k=u[1]-u[0]
        c2=[cu-k if cu>=u[1] else cu for cu in cuts]
        if c2[-1]>=len(l2) or (len(c2)>0 and c2[0]<=0) : i+=1; continue
        if violates(l2,c2): lines,cuts=l2,c2; changed=True
        else: i+=1
prev=0
for i,cu in enumerate(cuts): print('--- pre%d'%(i+1)); print('\n'.join(lines[prev:cu])); prev=cu
print('--- main'); print('\n'.join(lines[prev:]))
