#!/usr/bin/env python3
"""Ad-hoc minimiser for C11 witnesses (investigation aid, not part of the checks):
shrinks the host line by line while the plain binary still shows interference."""
import json,sys,subprocess,os,re,tempfile
v=json.load(open(sys.argv[1])); c=v['case']; ti=sys.argv[2]
cfg=sys.argv[3] if len(sys.argv)>3 else '/repo/test'
d=tempfile.mkdtemp(dir='/dev/shm'); os.symlink(cfg+'/.ti-config',d+'/.ti-config')
def run(src):
    open(d+'/main.rb','w').write(src)
    p=subprocess.run([ti,'main.rb']+c['mode'],cwd=d,capture_output=True,text=True,timeout=20)
    if p.returncode!=0: return None
    return p.stdout
def recs(out):
    r=[]
    for l in out.splitlines():
        m=re.match(r'^(@?)([^:\n]+):::(\d+):::(.*)$',l)
        if m: r.append((m.group(1),int(m.group(3)),m.group(4)))
    return r
frag=c['fragment'].rstrip('\n').split('\n')
def violates(host,line):
    k=len(frag)
    ind=re.match(r'\s*',host[line-1]).group(0) if line<=len(host) else ''
    merged=host[:line-1]+[ind+f for f in frag]+host[line-1:]
    o1=run('\n'.join(host)); o2=run('\n'.join(merged))
    if o1 is None or o2 is None: return False
    b=recs(o1); g=[]
    for (h,r,m) in recs(o2):
        if r<line: g.append((h,r,m))
        elif r<line+k: continue
        else: g.append((h,r-k,m))
    return b!=g
host=c['host'].split('\n'); line=c['line']
assert violates(host,line)
opener=re.compile(r'^\s*(def|class|module|if|unless|while|until|case|loop|begin|for)\b|\bdo(\s*\|[^|]*\|)?\s*$')
closer=re.compile(r'^\s*(end|else|elsif|when|in|rescue|ensure)\b')
def unit(host,i):
    """lines [i,j) forming a removable unit, or None"""
    l=host[i]
    if closer.match(l): return None
    if opener.search(l) and not re.search(r'\bend\s*$',l):
        ind=len(l)-len(l.lstrip())
        for j in range(i+1,len(host)):
            lj=host[j]
            if lj.strip()=='' : continue
            if len(lj)-len(lj.lstrip())==ind and re.match(r'^\s*end\b',lj): return (i,j+1)
            if len(lj)-len(lj.lstrip())<ind: return None
        return None
    if re.search(r'(=|,|\\|\()\s*$',l): return None
    return (i,i+1)
changed=True
while changed:
    changed=False
    i=0
    while i<len(host):
        u=unit(host,i)
        if u is None or (u[0]<=line-1<u[1]): i+=1; continue
        h2=host[:u[0]]+host[u[1]:]; l2=line-(u[1]-u[0]) if u[0]<line-1 else line
        if violates(h2,l2):
            host,line=h2,l2; changed=True
        else: i+=1
print('LINE',line); print('\n'.join(host)); print('FRAG'); print('\n'.join(frag))
