#!/bin/bash
# usage: try_seeded.sh <mutant dir with patch.diff [demo.sh]> <check id> [more check ids]
# Verifies a seeded change in a scratch worktree of /repo (HEAD): applies, builds, runs the
# golden suite and the demonstration with and without the change, then runs the named
# checks (quick tier) against the changed tree. The worktree is removed afterwards.
set -u
M=$(realpath "$1"); shift
WT=/tmp/wt/verify_$$
export GOFLAGS=-mod=mod GOPROXY=off
git -C /repo worktree add -q --detach "$WT" HEAD || exit 2
cleanup() { git -C /repo worktree remove --force "$WT" 2>/dev/null; rm -rf "$WT" /tmp/wt/bin_$$; }
trap cleanup EXIT
mkdir -p /tmp/wt/bin_$$/base /tmp/wt/bin_$$/mut
(cd "$WT" && go build -o /tmp/wt/bin_$$/base/ti . && go build -o /tmp/wt/bin_$$/base/ti-rbs2json ./cmd/rbs2json && go build -o /tmp/wt/bin_$$/base/ti-c2json ./cmd/c2json ) || { echo "BASE BUILD FAILED"; exit 2; }
if ! git -C "$WT" apply "$M/patch.diff" 2>/tmp/wt/apply_$$.err; then
  if ! git -C "$WT" apply -3 "$M/patch.diff" 2>>/tmp/wt/apply_$$.err; then echo "PATCH DOES NOT APPLY"; cat /tmp/wt/apply_$$.err | head -5; exit 3; fi
fi
(cd "$WT" && go build ./... && go build -o /tmp/wt/bin_$$/mut/ti . && go build -o /tmp/wt/bin_$$/mut/ti-rbs2json ./cmd/rbs2json && go build -o /tmp/wt/bin_$$/mut/ti-c2json ./cmd/c2json ) || { echo "MUTANT BUILD FAILED"; exit 3; }
echo "== golden with change:"; VERIF_REPO="$WT" /verif/bin/verif golden | tail -3
if [ -f "$M/demo.sh" ]; then
  D=/tmp/wt/demo_$$; rm -rf $D; mkdir -p $D; cp -r /repo/test/.ti-config $D/
  (cd $D && bash "$M/demo.sh" /tmp/wt/bin_$$/base >/tmp/wt/demo_base_$$.out 2>&1; echo "== demo WITHOUT change: exit $?")
  (cd $D && bash "$M/demo.sh" /tmp/wt/bin_$$/mut >/tmp/wt/demo_mut_$$.out 2>&1; echo "== demo WITH change: exit $?"; tail -3 /tmp/wt/demo_mut_$$.out)
  rm -rf $D
fi
for id in "$@"; do
  echo "== check $id (quick) against the changed tree:"
  VERIF_REPO="$WT" VERIF_HOME=/tmp/wt/vh_$$ /verif/bin/verif check $id --tier quick 2>&1 | grep -E "^(VIOLATION|RESULT|INCONCLUSIVE|KNOWN)" | cut -c1-260 | head -6
done
rm -rf /tmp/wt/vh_$$ /tmp/wt/*_$$.out /tmp/wt/apply_$$.err
