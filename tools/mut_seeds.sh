#!/bin/bash
# usage: mut_seeds.sh <patch.diff> <check id> <seed> [seed...]
# Applies a seeded change in a scratch worktree of /repo HEAD (removed afterwards) and runs
# one check's quick tier against it at several seeds with a scratch VERIF_HOME. Signatures of
# the listed findings (KNOWN_FINDINGS.txt) are filtered from the VIOLATION lines, because the
# scratch home has no known-findings file.
P=$(realpath "$1"); C=$2; shift 2
mkdir -p /tmp/wt
WT=/tmp/wt/ms_$$
git -C /repo worktree add -q --detach $WT HEAD && git -C $WT apply "$P" || { git -C /repo worktree remove --force $WT 2>/dev/null; exit 2; }
known=$(grep -oE '^KNOWN-FINDING: property=[A-Z0-9]+ sig="[^"]*"' /verif/KNOWN_FINDINGS.txt | sed 's/.*sig=//' | paste -sd'|' | sed 's/[][.*^$]/\\&/g')
for s in "$@"; do
  VERIF_REPO=$WT VERIF_HOME=/tmp/wt/vhms_$$ VERIF_SEED=$s /verif/bin/verif check $C --tier quick 2>&1 | grep -E "^(RESULT|VIOLATION)" | grep -vE "sig=($known) " | cut -c1-230
done
git -C /repo worktree remove --force $WT; rm -rf /tmp/wt/vhms_$$
