#!/usr/bin/env python3
"""save_seeded.py <src dir> <name> <caught_by> <initially_missed yes/no> <note>"""
import sys,json,shutil,os
src,name,caught,missed,note=sys.argv[1:6]
dst='/verif/seeded/'+name
shutil.rmtree(dst,ignore_errors=True); shutil.copytree(src,dst)
mp=dst+'/meta.json'
try: meta=json.load(open(mp))
except Exception: meta={}
meta['confirmed_by_me']={"how":"tools/try_seeded.sh: scratch worktree of /repo HEAD, patch applied, go build, golden runner 585/585, demo.sh exits 0 without and non-zero with the change, then the named check (quick tier, VERIF_REPO=<worktree>)",
 "caught_by":caught,"initially_missed":missed=='yes',"note":note}
json.dump(meta,open(mp,'w'),indent=1)
print('saved',dst)
