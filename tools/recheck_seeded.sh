#!/bin/bash
# usage: recheck_seeded.sh [name-prefix]
# Re-runs every kept seeded change against the CURRENT /repo HEAD: the patch is
# applied in a scratch worktree (removed afterwards), the tree is built, and the
# check named in the record (quick tier, VERIF_SEED default) is run against it.
# Prints one line per record: CAUGHT / MISSED / NOAPPLY / NOBUILD.
# Nothing is written under /verif; findings listed in KNOWN_FINDINGS.txt appear
# as violations here because the scratch VERIF_HOME has no known-findings file,
# so CAUGHT requires a signature that the unchanged tree does not produce: the
# base signatures are collected first, per check.
set -u
export GOFLAGS=-mod=mod GOPROXY=off
P=${1:-}
OUT=/tmp/wt/recheck_$$; mkdir -p $OUT
declare -A BASE
base_sigs() { # check id -> file with signatures on the unchanged tree
  local id=$1
  if [ -z "${BASE[$id]:-}" ]; then
    VERIF_HOME=$OUT/vh_base_$id /verif/bin/verif check $id --tier quick 2>&1 | grep -oE 'sig="[^"]*"' | sort -u > $OUT/base_$id.sigs
    rm -rf $OUT/vh_base_$id
    BASE[$id]=$OUT/base_$id.sigs
  fi
}
for d in /verif/seeded/${P}*/; do
  name=$(basename $d)
  ids=$(python3 -c "
import json,re,sys
d=json.load(open('$d/meta.json'))
print(' '.join(re.findall(r'C\d\d', d['confirmed_by_me']['caught_by'])[:2]))")
  WT=/tmp/wt/rc_$$
  git -C /repo worktree add -q --detach $WT HEAD || exit 2
  if ! git -C $WT apply $d/patch.diff 2>/dev/null && ! git -C $WT apply -3 $d/patch.diff 2>/dev/null; then
    echo "NOAPPLY $name"; git -C /repo worktree remove --force $WT; continue
  fi
  if ! (cd $WT && go build ./... 2>/dev/null); then
    echo "NOBUILD $name"; git -C /repo worktree remove --force $WT; continue
  fi
  verdict=MISSED
  for id in $ids; do
    base_sigs $id
    VERIF_REPO=$WT VERIF_HOME=$OUT/vh /verif/bin/verif check $id --tier quick 2>&1 | grep -oE 'sig="[^"]*"' | sort -u > $OUT/mut.sigs
    rm -rf $OUT/vh
    new=$(comm -23 $OUT/mut.sigs ${BASE[$id]} | wc -l)
    if [ "$new" -gt 0 ]; then verdict="CAUGHT by $id ($new new signatures)"; break; fi
  done
  echo "$verdict $name"
  git -C /repo worktree remove --force $WT
done
rm -rf $OUT
