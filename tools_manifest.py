#!/usr/bin/env python3
"""Regenerates /verif/MANIFEST.json from the table below (kept next to the
harness so MANIFEST.json is always valid and in step with the registered
checks)."""
import json, subprocess, sys

CLAIMED = json.load(open('/verif/manifest_checks.json'))
props = [json.loads(l) for l in open('/verif/properties.jsonl')]
ids = [p['id'] for p in props]

hooks = subprocess.run(['git','-C','/repo','log','--format=%H %s'],capture_output=True,text=True).stdout.splitlines()
hook_commits = [l.split()[0] for l in hooks if ' verif hooks' in l or l.split(' ',1)[1].startswith('verif hooks')]

m = {
 "version": 1,
 "setup_cmd": "cd /verif/harness && GOTOOLCHAIN=local GOFLAGS=-mod=mod GOPROXY=off GOWORK=off go build -o /verif/bin/verif .",
 "hooks": {
  "guard": "verif",
  "enable": "go build -tags verif (the harness builds ti, ti-verif, and on demand ti-race from /repo's working tree into a scratch directory)",
  "baseline_off_cmd": "cd /repo && GOFLAGS=-mod=mod GOPROXY=off go build ./... && go test -vet=off -count=1 ./...",
  "source_commits": hook_commits,
  "add_only": True
 },
 "engines": [{
  "name": "verif", "path": "/verif/harness", "serves_properties": [c['property_id'] for c in CLAIMED['checks']],
  "kind_free_text": "runtime monitoring: execution records of the real ti binaries (in-process serve mode behind build tag verif as explorer, plain binary in a fresh process as judge), logical step watchdog hooks, state-invariant hook on the builtin table, Go race detector, offline relational and reference-model checkers over recorded runs"
 }],
 "checks": [],
 "notes": CLAIMED.get('notes',''),
 "not_applicable": []
}
claimed=set()
for c in CLAIMED['checks']:
    pid=c['property_id']; claimed.add(pid)
    m['checks'].append({
     "property_id": pid,
     "quick_cmd": f"/verif/bin/verif check {pid} --tier quick",
     "thorough_cmd": f"/verif/bin/verif check {pid} --tier thorough",
     "evidence_file": f"/verif/evidence/{pid}.json",
     "replay_cmd_template": "/verif/bin/verif replay {path}",
     "engine": "verif",
     "level_claimed": {"category":"exploration","text":c['text'],"design_ref":c.get('design_ref','DESIGN.md section 4')},
     "level_note": c['note'],
     "technique": c['technique'],
    })
for pid in ids:
    if pid not in claimed:
        m['not_applicable'].append({"property_id":pid,"reason":CLAIMED.get('pending',{}).get(pid,"check not built yet in this round; no claim is made")})
json.dump(m,open('/verif/MANIFEST.json','w'),indent=1)
print("claimed",len(claimed),"not_applicable",len(m['not_applicable']))
