package main

import (
	"encoding/json"
	"fmt"
	"sort"
	"strings"
	"unicode"
	"unicode/utf8"
)

// ---------------------------------------------------------------------------
// C03: tokenizing terminates and consumes everything (lexer probe hook)

type lexCase struct {
	Text string `json:"text"`
}

var lexAlphabetQuick = []string{"\"", "'", "#", "%", "<", ">", "=", ".", "-", "+", "&", "|", ":", "0", "1", "_", "x", "A", " ", "\n", "\\", "\x00", "\xff", "`"}
var lexAlphabetThorough = []string{"\"", "'", "#", "%", "<", "=", ".", "-", "&", "|", ":", "1", "x", " ", "\n", "\\", "\x00", "`", "{", "["}

func judgeLex(text string, r *LexResult) (sig, what string) {
	n := utf8.RuneCountInString(text)
	runeAt := func(pos int) string {
		rs := []rune(text)
		if pos >= 1 && pos <= len(rs) {
			return fmt.Sprintf("%q", rs[pos-1])
		}
		return "eof"
	}
	switch {
	case r.Panic != "":
		return "lex:panic:" + crashSignature(r.Panic, r.Stack), "Advance() panics: " + r.Panic
	case r.Budget != "":
		return "lex:" + hangSignature(r.Budget, r.Stack), "repeated Advance() does not reach end of stream within the step budget (" + r.Budget + ")"
	case r.Ended && (r.Pos < r.Len || r.Pending):
		return "lex:unconsumed:stops-at-" + runeAt(r.Pos), fmt.Sprintf("Advance() returned false at rune %d of %d (push-back pending: %v): the rest of the input is never tokenized", r.Pos, r.Len, r.Pending)
	case r.Advances > int64(2*n+2):
		return "lex:too-many-tokens", fmt.Sprintf("%d tokens for %d runes", r.Advances, n)
	case r.RPanic != "":
		return "lex:read-panic:" + crashSignature(r.RPanic, r.Stack), "Parser.Read() panics: " + r.RPanic
	case r.RBudget != "":
		return "lex:read-" + hangSignature(r.RBudget, r.Stack), "repeated Parser.Read() does not reach end of stream within the step budget"
	case r.ReadError != "":
		return "lex:read-error:after-" + runeAt(r.ReadPos), "Parser.Read() reports `" + r.ReadError + "` for a token of the stream"
	case r.Reads > int64(2*n+2):
		return "lex:too-many-reads", fmt.Sprintf("%d parser tokens for %d runes", r.Reads, n)
	}
	return "", ""
}

func lexBudgets(text string) (int64, int64) {
	n := int64(len(text))
	return 200 + 4*n, 1000 + 8*n
}

func runLexBatch(c *CheckCtx, s *Slot, texts []string) {
	if len(texts) == 0 {
		return
	}
	maxLen := 0
	for _, t := range texts {
		if len(t) > maxLen {
			maxLen = len(t)
		}
	}
	be, bt := lexBudgets(strings.Repeat("x", maxLen))
	res, err := s.Lex(texts, be, bt)
	if err != nil {
		// a dead worker: find the culprit one by one
		if len(texts) == 1 {
			c.Report(&Violation{Sig: "lex:worker-died", Kind: "lex", Case: mustJSON(&lexCase{Text: texts[0]}),
				What: "lexer probe killed the process: " + oneLine(err.Error(), 300)})
			return
		}
		mid := len(texts) / 2
		runLexBatch(c, s, texts[:mid])
		runLexBatch(c, s, texts[mid:])
		return
	}
	c.Eval(int64(len(res)))
	for i, r := range res {
		if i >= len(texts) {
			break
		}
		rr := r
		if rr.Advances > 0 {
			c.Event("texts_with_tokens", 1)
			c.Nontrivial(texts[i])
		}
		c.Event("tokens_observed", rr.Advances)
		if sig, what := judgeLex(texts[i], &rr); sig != "" {
			c.Report(&Violation{Sig: sig, Kind: "lex", Case: mustJSON(&lexCase{Text: texts[i]}),
				What: fmt.Sprintf("%s; input %q", what, clip(texts[i], 120)), Observed: tail(rr.Stack, 2000)})
		}
	}
}

// unicodeRepresentatives returns first/middle/last runes of every Unicode
// general category plus a few runes with special roles in lexers.
func unicodeRepresentatives() []string {
	var names []string
	for name := range unicode.Categories {
		names = append(names, name)
	}
	sort.Strings(names)
	seen := map[rune]bool{}
	var out []string
	add := func(r rune) {
		if r < 0 || r > unicode.MaxRune || seen[r] || (r >= 0xD800 && r <= 0xDFFF) {
			return
		}
		seen[r] = true
		out = append(out, string(r))
	}
	for _, name := range names {
		tab := unicode.Categories[name]
		var los, his []rune
		for _, r16 := range tab.R16 {
			los, his = append(los, rune(r16.Lo)), append(his, rune(r16.Hi))
		}
		for _, r32 := range tab.R32 {
			los, his = append(los, rune(r32.Lo)), append(his, rune(r32.Hi))
		}
		if len(los) == 0 {
			continue
		}
		add(los[0])
		add(his[0])
		add(los[len(los)/2])
		add(his[len(his)-1])
	}
	for _, r := range []rune{0x01, 0x07, 0x08, 0x0b, 0x0c, 0x0d, 0x1a, 0x1b, 0x7f, 0x85, 0x9b, 0xa0, 0xad, 0x200b, 0x200d, 0x2028, 0x2029, 0x3000, 0xfeff, 0xfffd, 0xff15, 0x0663, 0x0969, 0x1d7ce, 0x2460, 0x00b2, 0x00bd, 0x1f600, 0x10ffff} {
		add(r)
	}
	return out
}

func enumStrings(alphabet []string, maxLen int) []string {
	out := []string{""}
	prev := []string{""}
	for l := 1; l <= maxLen; l++ {
		var cur []string
		for _, p := range prev {
			for _, a := range alphabet {
				cur = append(cur, p+a)
			}
		}
		out = append(out, cur...)
		prev = cur
	}
	return out
}

func init() {
	register(&Check{ID: "C03", Title: "tokenizing terminates and consumes everything",
		Replay: func(c *CheckCtx, s *Slot, v *Violation) *Violation {
			var lc lexCase
			if json.Unmarshal(v.Case, &lc) != nil {
				return nil
			}
			be, bt := lexBudgets(lc.Text)
			res, err := s.Lex([]string{lc.Text}, be, bt)
			if err != nil || len(res) != 1 {
				return &Violation{Sig: "lex:worker-died", Kind: "lex", Case: v.Case, What: "lexer probe killed the process"}
			}
			if sig, what := judgeLex(lc.Text, &res[0]); sig != "" {
				return &Violation{Sig: sig, Kind: "lex", Case: v.Case, What: what + fmt.Sprintf("; input %q", clip(lc.Text, 120))}
			}
			return nil
		},
		Run: func(c *CheckCtx) {
			if c.Eng.B.Degraded {
				c.Inconclusive("the lexer probe needs the verif-tagged build, which failed")
				return
			}
			alphabet, maxLen := lexAlphabetQuick, 4
			if !c.Quick() {
				alphabet, maxLen = lexAlphabetThorough, 5
			}
			c.rule = fmt.Sprintf("exhaustive: every string of length <= %d over the %d-symbol hostile alphabet %q plus first/middle/last runes of every Unicode general category (and lexer-relevant specials: C0/C1 controls, non-ASCII digits and spaces, BOM, zero-width) in 20 fixed contexts and paired with every alphabet symbol and with each other, plus seeded corpus prefixes and random rune strings with heredoc starts and multi-line strings; each text is fed to the lexer probe hook, which calls Lexer.Advance() until it returns false and Parser.Read() until it returns the end token, and reports call counts, the reader position and pending push-back. distinct_nontrivial = distinct texts that produced at least one token", maxLen, len(alphabet), alphabet)
			c.assumptions = []string{"the probe observes the public lexer/parser API directly (reader position through a verif-tagged accessor); this is the observation point the property names, so no black-box confirmation exists for this check"}
			var texts []string
			texts = append(texts, enumStrings(alphabet, maxLen)...)
			// every Unicode general category is represented: first, middle and last
			// rune of each category, in fixed lexical contexts (exhaustive for this
			// family), and in all pairs with the hostile alphabet
			reps := unicodeRepresentatives()
			ctxs := []string{"%s", "x%s", "%sx", "1%s", "%s1", "+%s", "-%s", "x = %s\ny = 2\n", "\"%s\"", "# %s\n1", "x.%s", ":%s", "%s:", "@%s", "[%s]", "x %s y", "%s\n%s", "1.%s", "%s.5", "a:\"%s"}
			for _, rp := range reps {
				for _, cx := range ctxs {
					texts = append(texts, strings.ReplaceAll(cx, "%s", rp))
				}
				for _, a := range alphabet {
					texts = append(texts, rp+a, a+rp, a+rp+a)
				}
			}
			for i := 0; i < len(reps); i++ {
				for j := 0; j < len(reps); j += 1 + len(reps)/c.N(12, 60) {
					texts = append(texts, reps[i]+reps[j])
				}
			}
			c.Extra("unicode_representatives", len(reps))
			exhaustiveN := len(texts)
			texts = append(texts, hostileStrings()...)
			items := Corpus()
			r := c.RNG.Sub(77)
			for i := 0; i < c.N(3000, 40000); i++ {
				texts = append(texts, cutPrefix(r, items[i%len(items)].Source))
			}
			pieces := []string{"<<~EOS\n", "<<EOS\n", "EOS\n", "\"", "'", "\"\n\n", "#{", "}", "%w[", "]", "%", "<", ">", "\\", "\x00", "`", "\xf0\x9f", "é", "1.", "1..", "..", "...", "a:\"", ":", "::", "&.", "&", "|", "||=", "=begin\n", "=end\n", "# c", "\n", " ", "\t", "x", "Foo", "1", "1_000", "0x1f", "1.5e3", "-", "->", "=>", "===", "!~", "<=>", "**", "@a", "@@b", "$c", "?a", "__END__\n"}
			for i := 0; i < c.N(3000, 40000); i++ {
				var sb strings.Builder
				n := 1 + r.Intn(40)
				for k := 0; k < n; k++ {
					sb.WriteString(Pick(r, pieces))
				}
				texts = append(texts, sb.String())
			}
			c.Extra("exhaustive_family_size", exhaustiveN)
			c.Extra("exhaustive_families", []string{fmt.Sprintf("all strings of length <= %d over %d symbols", maxLen, len(alphabet))})
			const batch = 4000
			nb := (len(texts) + batch - 1) / batch
			c.Eng.Map(nb, func(s *Slot, i int) {
				lo, hi := i*batch, (i+1)*batch
				if hi > len(texts) {
					hi = len(texts)
				}
				runLexBatch(c, s, texts[lo:hi])
			})
			c.Sample(map[string]any{"text": "x = \"abc", "kind": "unterminated string at EOF"})
			c.Sample(map[string]any{"text": texts[len(texts)-1], "kind": "random pieces"})
			c.Sample(map[string]any{"text": texts[exhaustiveN/2], "kind": "enumerated"})
		}})
}
