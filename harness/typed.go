package main

import (
	"encoding/json"
	"fmt"
	"regexp"
	"sort"
	"strings"
)

// ---------------------------------------------------------------------------
// C07 / C08 / C09: one generator, one configuration model, three predicates

// MT is the model's type of a value: a set of classes; for an Array the set
// of element classes (nil = not tracked).
type MT struct {
	Atoms   []string `json:"atoms"`
	Elem    []string `json:"elem,omitempty"` // element classes when Atoms == [Array]
	ElemSet bool     `json:"elem_set,omitempty"`
	Unknown bool     `json:"unknown,omitempty"`
}

func mt(atoms ...string) MT {
	a := append([]string{}, atoms...)
	sort.Strings(a)
	return MT{Atoms: dedup(a)}
}

func mtArray(elem ...string) MT {
	e := append([]string{}, elem...)
	sort.Strings(e)
	return MT{Atoms: []string{"Array"}, Elem: dedup(e), ElemSet: true}
}

func (t MT) String() string {
	if t.Unknown {
		return "?"
	}
	if len(t.Atoms) == 1 && t.Atoms[0] == "Array" && t.ElemSet {
		return "Array<" + strings.Join(t.Elem, " ") + ">"
	}
	if len(t.Atoms) == 1 {
		return t.Atoms[0]
	}
	return "Union<" + strings.Join(t.Atoms, " ") + ">"
}

func (t MT) equal(o MT) bool {
	if t.Unknown || o.Unknown {
		return false
	}
	if strings.Join(t.Atoms, ",") != strings.Join(o.Atoms, ",") {
		return false
	}
	if len(t.Atoms) == 1 && t.Atoms[0] == "Array" && t.ElemSet && o.ElemSet && len(t.Elem) > 0 && len(o.Elem) > 0 {
		// (no claim about the element type of an array nothing was put in)
		return strings.Join(t.Elem, ",") == strings.Join(o.Elem, ",")
	}
	return true
}

// parseTiType parses what ti prints: Integer, Union<A B>, Array<A B>, Hash ...
var tiTypeWordRe = regexp.MustCompile(`^[A-Za-z_][A-Za-z0-9_:]*$`)

func parseTiType(s string) (MT, bool) {
	s = strings.TrimSpace(s)
	switch {
	case strings.HasPrefix(s, "Union<") && strings.HasSuffix(s, ">"):
		// members at depth 0; a container member counts with its outer class
		members, ok := splitTypeMembers(s[6 : len(s)-1])
		if !ok {
			return MT{}, false
		}
		var atoms []string
		for _, m := range members {
			switch {
			case strings.HasPrefix(m, "Union<"):
				return MT{}, false // a union inside a union: see nestedUnion
			case strings.HasPrefix(m, "Array<"):
				atoms = append(atoms, "Array")
			case tiTypeWordRe.MatchString(m):
				atoms = append(atoms, m)
			default:
				return MT{}, false
			}
		}
		return mt(atoms...), true
	case strings.HasPrefix(s, "Array<") && strings.HasSuffix(s, ">"):
		inner := s[6 : len(s)-1]
		if strings.ContainsAny(inner, "<>") {
			return MT{Atoms: []string{"Array"}}, true
		}
		return mtArray(strings.Fields(inner)...), true
	case tiTypeWordRe.MatchString(s):
		return mt(s), true
	}
	return MT{}, false
}

// splitTypeMembers splits "A Array<B C> D" at the spaces outside <...>.
func splitTypeMembers(s string) ([]string, bool) {
	var out []string
	depth, start := 0, 0
	for i := 0; i <= len(s); i++ {
		switch {
		case i < len(s) && s[i] == '<':
			depth++
		case i < len(s) && s[i] == '>':
			depth--
			if depth < 0 {
				return nil, false
			}
		case i == len(s) || (s[i] == ' ' && depth == 0):
			if i > start {
				out = append(out, s[start:i])
			}
			start = i + 1
		}
	}
	return out, depth == 0
}

// nestedUnion reports a union written directly inside a union
// ("Union<Union<A B> C>"): a printed type is flat.
func nestedUnion(s string) bool {
	s = strings.TrimSpace(s)
	if !strings.HasPrefix(s, "Union<") || !strings.HasSuffix(s, ">") {
		return false
	}
	members, ok := splitTypeMembers(s[6 : len(s)-1])
	if !ok {
		return false
	}
	for _, m := range members {
		if strings.HasPrefix(m, "Union<") {
			return true
		}
	}
	return false
}

// ----- the program

type tStmt struct {
	Text    string `json:"text"`
	Kind    string `json:"kind"` // assign-literal, assign-union, call, probe
	Verdict string `json:"verdict,omitempty"` // for calls: fail, ok, grey
	Reason  string `json:"reason,omitempty"`  // undefined | arity | argtype
	Feature string `json:"feature,omitempty"`
	Want    *MT    `json:"want,omitempty"` // for probes: expected type (nil = grey)
	RetKind string `json:"ret_kind,omitempty"`
	Tainted bool   `json:"tainted,omitempty"` // depends on an unknown value
	// for probes of nested arrays: the (array depth, class) pairs the printed type
	// must consist of, whatever way ti merges the inner arrays
	Leaves []string `json:"leaves,omitempty"`
}

// typeLeaves flattens a printed type into its sorted, deduplicated
// "depth:Class" pairs; Union<> adds no depth, Array<> one level.
func typeLeaves(s string) ([]string, bool) {
	var out []string
	depth := 0
	var stack []bool // true = Array
	word := ""
	flush := func() {
		if word != "" {
			out = append(out, fmt.Sprintf("%d:%s", depth, word))
			word = ""
		}
	}
	for i := 0; i < len(s); i++ {
		ch := s[i]
		switch {
		case ch == '<':
			isArr := word == "Array"
			if !isArr && word != "Union" {
				return nil, false
			}
			word = ""
			stack = append(stack, isArr)
			if isArr {
				depth++
			}
		case ch == '>':
			flush()
			if len(stack) == 0 {
				return nil, false
			}
			if stack[len(stack)-1] {
				depth--
			}
			stack = stack[:len(stack)-1]
		case ch == ' ':
			flush()
		default:
			word += string(ch)
		}
	}
	flush()
	if len(stack) != 0 {
		return nil, false
	}
	sort.Strings(out)
	return dedup(out), true
}

type typedCase struct {
	Cfg   CfgSpec  `json:"cfg"`
	Stmts []*tStmt `json:"stmts"`
}

func (tc *typedCase) source() string {
	var sb strings.Builder
	for _, s := range tc.Stmts {
		sb.WriteString(s.Text + "\n")
	}
	return sb.String()
}

// special strategies and keywords the model makes no claim about (C07/C08)
var unmodelledMethods = map[string]bool{
	"push": true, "<<": true, "append": true, "concat": true, "unshift": true, "replace": true, "slice": true, "+": false,
	"merge": true, "merge!": true, "shift": true, "p": true, "yield": true, "class": true, "attr_accessor": true, "attr_reader": true,
	"include": true, "extend": true, "raise": true, "new": true, "nil?": false, "is_a?": true, "[]": true, "[]=": true, "==": true, "!=": true, "!": true,
	"puts": true, "print": true, "require": true, "private": true, "public": true, "protected": true, "loop": true, "lambda": true, "proc": true,
	"block_given?": true, "send": true, "respond_to?": true, "instance_variable_get": true, "instance_variable_set": true, "freeze": true,
}

var modelValueClasses = []string{"Integer", "String", "Float", "Symbol", "NilClass", "Bool", "Array", "Hash"}

func literalOfClass(r *RNG, cl string) (string, MT) {
	switch cl {
	case "Integer":
		return fmt.Sprintf("%d", 1+r.Intn(50)), mt("Integer")
	case "String":
		// (texts that look like other syntax: splat, block argument, keyword,
		// symbol, number)
		return Pick(r, []string{"\"a\"", "\"hello\"", "\"x y\"", "\"*star\"", "\"*a b\"", "\"&blk\"", "\"**kw\"", "\":sym\"", "\"12\"", "\"Hello\""}), mt("String")
	case "Float":
		return fmt.Sprintf("%d.5", r.Intn(9)), mt("Float")
	case "Symbol":
		return Pick(r, []string{":ok", ":sym"}), mt("Symbol")
	case "NilClass":
		return "nil", mt("NilClass")
	case "Bool":
		return Pick(r, []string{"true", "false"}), mt("Bool")
	case "Array":
		switch r.Intn(3) {
		case 0:
			return "[1, 2]", mtArray("Integer")
		case 1:
			return "[\"a\", 1]", mtArray("Integer", "String")
		default:
			return "[1.5]", mtArray("Float")
		}
	case "Hash":
		return "{a: 1}", mt("Hash")
	}
	return "nil", mt("NilClass")
}

var scalarClasses = []string{"Integer", "String", "Float", "Symbol", "NilClass", "Bool"}

var plainMethodRe = regexp.MustCompile(`^[a-z_][a-z0-9_]*[?!]?$`)

type tVar struct {
	name string
	ty   MT
	keys map[string]MT // for a hash literal variable: value type per literal key text
}

// paramAccepts: does the declared parameter type accept a value of class cl?
// third value: grey (the documentation does not decide).
func paramAccepts(p TypeSet, arg MT) (all bool, none bool, grey bool) {
	if p.Grey || p.Special != "" {
		return false, false, true
	}
	if p.Untyped {
		return true, false, false
	}
	if arg.Unknown || len(arg.Atoms) == 0 {
		return false, false, true
	}
	if p.Elem != nil {
		// typed array parameter: only the class is documented to be checked
		if len(arg.Atoms) == 1 && arg.Atoms[0] == "Array" {
			return false, false, true
		}
		if !contains(arg.Atoms, "Array") {
			return false, true, false
		}
		return false, false, true
	}
	in, out := 0, 0
	for _, a := range arg.Atoms {
		if contains(p.Atoms, a) {
			in++
		} else {
			out++
		}
	}
	return out == 0, in == 0, false
}

type callJudgement struct {
	verdict string // fail | ok | grey
	reason  string
	ret     MT
	retKind string
}

// judgeCall applies the documented meaning of the declarations.
func judgeCall(model *CfgModel, recv MT, method string, args []MT, isStatic bool, staticClass string, kw map[string]MT) callJudgement {
	for _, a := range kw {
		if a.Unknown {
			return callJudgement{verdict: "grey"}
		}
	}
	if recv.Unknown && !isStatic {
		return callJudgement{verdict: "grey"}
	}
	for _, a := range args {
		if a.Unknown {
			return callJudgement{verdict: "grey"}
		}
	}
	if v, special := unmodelledMethods[method]; special && v {
		return callJudgement{verdict: "grey"}
	}
	classes := recv.Atoms
	if isStatic {
		classes = []string{staticClass}
	}
	declared, undeclared := 0, 0
	allOK := true
	anyArityAdmits := false
	anyTypeAdmits := false
	grey := false
	var rets []MT
	retKind := "class"
	retGrey := false
	for _, cl := range classes {
		decls := model.Lookup(cl, method, isStatic)
		if len(decls) == 0 {
			undeclared++
			continue
		}
		declared++
		classOK := false
		earlierMayBeChosen := false // an earlier declaration that accepts SOME class of every argument
		for _, d := range decls {
			hasBlock := len(d.BlockParams) > 0
			// keywords: every passed key is declared and every required key is passed,
			// otherwise the documentation does not decide
			declaredKw := map[string]*ModelParam{}
			kwUndecided := false
			for pi := range d.Params {
				if p := &d.Params[pi]; p.Key != "" {
					declaredKw[p.Key] = p
					if _, passed := kw[p.Key]; !passed && !p.Default {
						kwUndecided = true
					}
					if p.Rest {
						kwUndecided = true
					}
				}
			}
			for k := range kw {
				if declaredKw[k] == nil {
					kwUndecided = true
				}
			}
			if kwUndecided || hasBlock {
				grey = true
				continue
			}
			req, max := d.Arity()
			if len(args) < req || (max >= 0 && len(args) > max) {
				continue
			}
			anyArityAdmits = true
			// positional binding left to right; rest parameter types are not judged
			typesOK, typesNone := true, false
			for k, a := range kw {
				all, none, g := paramAccepts(declaredKw[k].Type, a)
				if g {
					grey = true
					typesOK = false
					continue
				}
				if !all {
					typesOK = false
				}
				if none {
					typesNone = true
				}
			}
			pi := 0
			for ai, a := range args {
				var p *ModelParam
				for pi < len(d.Params) {
					p = &d.Params[pi]
					if p.Rest {
						break
					}
					pi++
					break
				}
				if p == nil {
					typesOK = false
					break
				}
				if p.Rest {
					grey = true
					continue
				}
				all, none, g := paramAccepts(p.Type, a)
				_ = ai
				if g {
					grey = true
					typesOK = false
					continue
				}
				if !all {
					typesOK = false
				}
				if none {
					typesNone = true
				}
			}
			if !typesNone {
				anyTypeAdmits = true
			}
			if !typesOK && !typesNone {
				earlierMayBeChosen = true
			}
			if typesOK {
				classOK = true
				// return type of the first admitting declaration; when an earlier
				// one accepts part of a union argument the documentation does not
				// say which of the two answers
				r, kind, rg := resolveReturn(d, cl, recv, args)
				if rg || d.Conditional || earlierMayBeChosen {
					retGrey = true
				}
				retKind = kind
				rets = append(rets, r)
				break
			}
		}
		if !classOK {
			allOK = false
		}
	}
	switch {
	case declared == 0:
		return callJudgement{verdict: "fail", reason: "undefined"}
	case undeclared > 0:
		return callJudgement{verdict: "grey"}
	case grey && !allOK:
		return callJudgement{verdict: "grey"}
	case !anyArityAdmits:
		return callJudgement{verdict: "fail", reason: "arity"}
	case !anyTypeAdmits && !grey:
		return callJudgement{verdict: "fail", reason: "argtype"}
	case allOK && !grey:
		j := callJudgement{verdict: "ok", retKind: retKind}
		if retGrey || len(rets) == 0 {
			j.ret = MT{Unknown: true}
			return j
		}
		u := rets[0]
		for _, r := range rets[1:] {
			if r.Unknown {
				u = MT{Unknown: true}
				break
			}
			if len(u.Atoms) == 1 && u.Atoms[0] == "Array" || len(r.Atoms) == 1 && r.Atoms[0] == "Array" {
				if !u.equal(r) {
					u = MT{Unknown: true}
					break
				}
				continue
			}
			u = mt(append(append([]string{}, u.Atoms...), r.Atoms...)...)
		}
		j.ret = u
		return j
	}
	return callJudgement{verdict: "grey"}
}

// resolveReturn: declared return type with the documented special names.
func resolveReturn(d *ModelMethod, cl string, recv MT, args []MT) (MT, string, bool) {
	r := d.Ret
	switch {
	case r.Grey:
		return MT{Unknown: true}, "grey", true
	case r.Untyped:
		return MT{Unknown: true}, "untyped", true
	case r.Special == "Self":
		if cl == "Array" && len(recv.Atoms) == 1 {
			return recv, "Self", false
		}
		if cl == "Array" {
			return MT{Unknown: true}, "Self", true
		}
		return mt(cl), "Self", false
	case r.Special == "Unify" || r.Special == "OptionalUnify":
		if cl == "Array" && len(recv.Atoms) == 1 && recv.ElemSet && len(recv.Elem) > 0 {
			e := append([]string{}, recv.Elem...)
			if r.Special == "OptionalUnify" {
				e = append(e, "NilClass")
			}
			return mt(e...), r.Special, false
		}
		return MT{Unknown: true}, r.Special, true
	case r.Special == "Argument":
		if len(args) > 0 {
			return args[0], "Argument", false
		}
		return MT{Unknown: true}, "Argument", true
	case r.Special != "":
		return MT{Unknown: true}, r.Special, true
	case r.Elem != nil:
		if r.Elem.Grey || r.Elem.Special != "" || r.Elem.Untyped {
			return MT{Atoms: []string{"Array"}}, "array", true
		}
		return mtArray(r.Elem.Atoms...), "array", false
	case len(r.Atoms) == 1 && r.Atoms[0] == "Array":
		return MT{Atoms: []string{"Array"}}, "array", true
	}
	return mt(r.Atoms...), "class", false
}

// genTypedProgram builds a straight-line program with judged calls.
func genTypedProgram(r *RNG, model *CfgModel, userClasses []*GClass, n int) []*tStmt {
	var stmts []*tStmt
	vars := []*tVar{}
	add := func(s *tStmt) { stmts = append(stmts, s) }
	add(&tStmt{Text: "flag = true", Kind: "assign-literal"})
	newVar := func(ty MT) *tVar {
		v := &tVar{name: fmt.Sprintf("v%d", len(vars)+1), ty: ty}
		vars = append(vars, v)
		return v
	}
	classes := append([]string{}, modelValueClasses...)
	for _, uc := range userClasses {
		classes = append(classes, uc.Name)
	}
	valueOf := func(cl string) (string, MT) {
		for _, uc := range userClasses {
			if uc.Name == cl {
				return cl + ".new", mt(cl)
			}
		}
		return literalOfClass(r, cl)
	}
	// some variables first
	for i := 0; i < 3+r.Intn(3); i++ {
		if r.Chance(1, 3) {
			a, b := Pick(r, classes), Pick(r, classes)
			la, ta := valueOf(a)
			lb, tb := valueOf(b)
			if a == "Array" || b == "Array" || a == b {
				v := newVar(ta)
				add(&tStmt{Text: v.name + " = " + la, Kind: "assign-literal"})
				_ = tb
				_ = lb
				continue
			}
			v := newVar(mt(a, b))
			add(&tStmt{Text: fmt.Sprintf("%s = flag ? %s : %s", v.name, la, lb), Kind: "assign-union"})
		} else {
			l, t := valueOf(Pick(r, classes))
			v := newVar(t)
			add(&tStmt{Text: v.name + " = " + l, Kind: "assign-literal"})
		}
		last := vars[len(vars)-1]
		w := last.ty
		add(&tStmt{Text: "dbtp " + last.name, Kind: "probe", Want: &w, RetKind: "literal"})
	}
	// unions of three and four classes, built by widening a two-class union (a value union
	// wider than the declared union it is passed to is still accepted when every variant is)
	if r.Chance(1, 2) {
		var us []*tVarRef
		for _, v := range vars {
			if len(v.ty.Atoms) == 2 && !v.ty.Unknown && len(v.ty.Elem) == 0 {
				us = append(us, &tVarRef{v.name, v.ty})
			}
		}
		if len(us) > 0 {
			cur := us[r.Intn(len(us))]
			for k := 0; k < 1+r.Intn(2); k++ {
				c := Pick(r, classes)
				has := c == "Array"
				for _, a := range cur.ty.Atoms {
					if a == c {
						has = true
					}
				}
				if has {
					continue
				}
				lc, _ := valueOf(c)
				nv := newVar(mt(append(append([]string{}, cur.ty.Atoms...), c)...))
				if r.Bool() {
					add(&tStmt{Text: fmt.Sprintf("%s = flag ? %s : %s", nv.name, cur.name, lc), Kind: "assign-union"})
				} else {
					add(&tStmt{Text: fmt.Sprintf("%s = flag ? %s : %s", nv.name, lc, cur.name), Kind: "assign-union"})
				}
				w := nv.ty
				add(&tStmt{Text: "dbtp " + nv.name, Kind: "probe", Want: &w, RetKind: "literal"})
				cur = &tVarRef{nv.name, nv.ty}
			}
		}
	}
	// a union of two configured classes that both declare the same method
	// more than once (generated configurations: ov0 of the first two classes)
	var ovs []string
	for _, cl := range classes {
		if len(model.Lookup(cl, "ov0", false)) > 1 {
			ovs = append(ovs, cl)
		}
	}
	if len(ovs) >= 2 && r.Bool() {
		la, _ := valueOf(ovs[0])
		lb, _ := valueOf(ovs[1])
		v := newVar(mt(ovs[0], ovs[1]))
		add(&tStmt{Text: fmt.Sprintf("%s = flag ? %s : %s", v.name, la, lb), Kind: "assign-union"})
		w := v.ty
		add(&tStmt{Text: "dbtp " + v.name, Kind: "probe", Want: &w, RetKind: "literal"})
	}
	tainted := false
	isScalar := func(t MT) bool {
		if t.Unknown || len(t.Atoms) == 0 {
			return false
		}
		for _, a := range t.Atoms {
			if !contains(scalarClasses, a) {
				return false
			}
		}
		return true
	}
	// a scalar value: a literal or a known scalar/union variable
	scalarValue := func() (string, MT) {
		var cands []*tVar
		for _, v := range vars {
			if isScalar(v.ty) {
				cands = append(cands, v)
			}
		}
		if len(cands) > 0 && r.Chance(1, 3) {
			v := Pick(r, cands)
			return v.name, v.ty
		}
		return literalOfClass(r, Pick(r, scalarClasses))
	}
	pickVar := func(ok func(v *tVar) bool) *tVar {
		var cands []*tVar
		for _, v := range vars {
			if !v.ty.Unknown && ok(v) {
				cands = append(cands, v)
			}
		}
		if len(cands) == 0 {
			return nil
		}
		return Pick(r, cands)
	}
	isArr := func(v *tVar) bool { return len(v.ty.Atoms) == 1 && v.ty.Atoms[0] == "Array" && v.ty.ElemSet }
	isHash := func(v *tVar) bool { return v.keys != nil && len(v.ty.Atoms) == 1 && v.ty.Atoms[0] == "Hash" }
	probe := func(text string, want MT, kind string) {
		w := want
		add(&tStmt{Text: "dbtp " + text, Kind: "probe", Want: &w, RetKind: kind, Tainted: tainted})
	}
	collOp := func() {
		switch r.Intn(13) {
		case 7: // nested array literal, probed as a whole and through indexing
			var leaves []string
			var lit func(d, max int) string
			lit = func(d, max int) string {
				n := 1 + r.Intn(2)
				var parts []string
				for e := 0; e < n; e++ {
					if d < max && (e == 0 || r.Bool()) {
						parts = append(parts, lit(d+1, max))
					} else {
						cl := Pick(r, []string{"Integer", "String", "Float", "Symbol"})
						l, _ := literalOfClass(r, cl)
						parts = append(parts, l)
						leaves = append(leaves, fmt.Sprintf("%d:%s", d, cl))
					}
				}
				return "[" + strings.Join(parts, ", ") + "]"
			}
			max := 2 + r.Intn(2)
			text := "[" + lit(2, max) + ", " + lit(2, max) + "]"
			v := newVar(MT{Unknown: true})
			add(&tStmt{Text: v.name + " = " + text, Kind: "coll", Feature: "nested-array", Tainted: tainted})
			sort.Strings(leaves)
			leaves = dedup(leaves)
			add(&tStmt{Text: "dbtp " + v.name, Kind: "probe", RetKind: "nested-array", Leaves: leaves, Tainted: tainted})
			// one level of indexing: every pair is one level shallower
			var inner []string
			for _, l := range leaves {
				var d int
				var cl string
				fmt.Sscanf(strings.Replace(l, ":", " ", 1), "%d %s", &d, &cl)
				inner = append(inner, fmt.Sprintf("%d:%s", d-1, cl))
			}
			sort.Strings(inner)
			add(&tStmt{Text: fmt.Sprintf("dbtp %s[%d]", v.name, r.Intn(2)), Kind: "probe", RetKind: "nested-index", Leaves: dedup(inner), Tainted: tainted})
			if r.Bool() {
				cl := Pick(r, []string{"Integer", "String", "Float", "Symbol"})
				l, _ := literalOfClass(r, cl)
				d := 2 + r.Intn(max-1)
				g := l
				for k := 1; k < d; k++ {
					g = "[" + g + "]"
				}
				op := v.name + " << " + g
				if r.Bool() {
					op = v.name + ".push(" + g + ")"
				}
				add(&tStmt{Text: op, Kind: "coll", Feature: "nested-growth", Tainted: tainted})
				grown := dedup(sortedCopy(append(append([]string{}, leaves...), fmt.Sprintf("%d:%s", d, cl))))
				add(&tStmt{Text: "dbtp " + v.name, Kind: "probe", RetKind: "nested-growth", Leaves: grown, Tainted: tainted})
			}
		case 8: // hashes inside a hash / inside an array, distinct keys
			c1, c2 := Pick(r, scalarClasses), Pick(r, scalarClasses)
			l1, t1 := literalOfClass(r, c1)
			l2, t2 := literalOfClass(r, c2)
			v := newVar(MT{Unknown: true})
			if r.Bool() {
				add(&tStmt{Text: fmt.Sprintf("%s = {a: {b: %s}, c: {d: %s}}", v.name, l1, l2), Kind: "coll", Feature: "nested-hash", Tainted: tainted})
				probe(v.name+"[:a][:b]", t1, "nested-hash")
				probe(v.name+"[:c][:d]", t2, "nested-hash")
			} else {
				add(&tStmt{Text: fmt.Sprintf("%s = [{a: %s}, {b: %s}]", v.name, l1, l2), Kind: "coll", Feature: "array-of-hashes", Tainted: tainted})
				probe(v.name+"[0][:a]", t1, "array-of-hashes")
				probe(v.name+"[1][:b]", t2, "array-of-hashes")
			}
		case 9:
			fallthrough
		case 0: // array literal
			var texts, atoms []string
			ne := 1 + r.Intn(3)
			if r.Chance(1, 8) {
				ne = 0
			}
			for e := 0; e < ne; e++ {
				l, t := scalarValue()
				texts = append(texts, l)
				atoms = append(atoms, t.Atoms...)
			}
			v := newVar(mtArray(atoms...))
			add(&tStmt{Text: v.name + " = [" + strings.Join(texts, ", ") + "]", Kind: "coll", Feature: "array-literal", Tainted: tainted})
			if ne > 0 {
				probe(v.name, v.ty, "array-literal")
			}
		case 1: // indexing
			a := pickVar(func(v *tVar) bool { return isArr(v) && len(v.ty.Elem) > 0 })
			if a == nil {
				return
			}
			v := newVar(mt(a.ty.Elem...))
			add(&tStmt{Text: fmt.Sprintf("%s = %s[%d]", v.name, a.name, r.Intn(3)), Kind: "coll", Feature: "index", Tainted: tainted})
			probe(v.name, v.ty, "index")
		case 2, 3: // growth
			a := pickVar(isArr)
			if a == nil {
				return
			}
			l, t := scalarValue()
			a.ty = mtArray(append(append([]string{}, a.ty.Elem...), t.Atoms...)...)
			text := a.name + ".push(" + l + ")"
			if r.Bool() {
				text = a.name + " << " + l
			}
			add(&tStmt{Text: text, Kind: "coll", Feature: "growth", Tainted: tainted})
			probe(a.name, a.ty, "growth")
		case 4: // hash literal
			sym := r.Bool()
			keys := map[string]MT{}
			var texts, order []string
			for _, k := range []string{"a", "b", "c"}[:1+r.Intn(3)] {
				l, t := scalarValue()
				kt := ":" + k
				if sym {
					texts = append(texts, k+": "+l)
				} else {
					kt = "\"" + k + "\""
					texts = append(texts, kt+" => "+l)
				}
				keys[kt] = t
				order = append(order, kt)
			}
			v := newVar(mt("Hash"))
			v.keys = keys
			add(&tStmt{Text: v.name + " = {" + strings.Join(texts, ", ") + "}", Kind: "coll", Feature: "hash-literal", Tainted: tainted})
			k := Pick(r, order)
			probe(v.name+"["+k+"]", keys[k], "hash-key")
		case 5: // hash store
			h := pickVar(isHash)
			if h == nil {
				return
			}
			l, t := scalarValue()
			var kt string
			for k := range h.keys {
				kt = k
			}
			nk := Pick(r, []string{"a", "b", "c", "d", "e"})
			if strings.HasPrefix(kt, ":") {
				kt = ":" + nk
			} else {
				kt = "\"" + nk + "\""
			}
			h.keys[kt] = t
			add(&tStmt{Text: h.name + "[" + kt + "] = " + l, Kind: "coll", Feature: "hash-store", Tainted: tainted})
			probe(h.name+"["+kt+"]", t, "hash-store")
		case 11, 12: // Hash#merge returns a new hash: the receiver keeps its own entries
			h := pickVar(isHash)
			if h == nil {
				// a hash of its own, with symbol keys
				keys := map[string]MT{}
				var texts []string
				for _, k := range []string{"a", "b"}[:1+r.Intn(2)] {
					l, t := literalOfClass(r, Pick(r, scalarClasses))
					texts = append(texts, k+": "+l)
					keys[":"+k] = t
				}
				h = newVar(mt("Hash"))
				h.keys = keys
				add(&tStmt{Text: h.name + " = {" + strings.Join(texts, ", ") + "}", Kind: "coll", Feature: "hash-literal", Tainted: tainted})
			}
			ks := make([]string, 0, len(h.keys))
			for k := range h.keys {
				ks = append(ks, k)
			}
			sort.Strings(ks)
			l, _ := literalOfClass(r, Pick(r, scalarClasses))
			kt := Pick(r, []string{":zm1", Pick(r, ks), Pick(r, ks)})
			if !strings.HasPrefix(kt, ":") {
				kt = ":zm3" // only symbol keys can be written `k: v`
			}
			if t, ok := h.keys[kt]; ok && len(t.Atoms) == 1 {
				// the same key with a value of another class
				for tries := 0; tries < 5; tries++ {
					cl := Pick(r, scalarClasses)
					if cl != t.Atoms[0] {
						l, _ = literalOfClass(r, cl)
						break
					}
				}
			}
			v := newVar(MT{Unknown: true})
			add(&tStmt{Text: v.name + " = " + h.name + ".merge({" + strings.TrimPrefix(kt, ":") + ": " + l + "})", Kind: "coll", Feature: "hash-merge", Tainted: tainted})
			for _, k := range ks {
				probe(h.name+"["+k+"]", h.keys[k], "hash-merge-receiver")
			}
		case 6: // Hash#delete: the declared [Unify, NilClass], one flat union
			h := pickVar(isHash)
			if h == nil {
				return
			}
			var atoms []string
			ks := make([]string, 0, len(h.keys))
			for k, t := range h.keys {
				ks = append(ks, k)
				atoms = append(atoms, t.Atoms...)
			}
			sort.Strings(ks)
			v := newVar(mt(append(atoms, "NilClass")...))
			add(&tStmt{Text: v.name + " = " + h.name + ".delete(" + Pick(r, ks) + ")", Kind: "coll", Feature: "hash-delete", Tainted: tainted})
			probe(v.name, v.ty, "hash-delete")
			h.ty, h.keys = MT{Unknown: true}, nil
		default: // hash lookup
			h := pickVar(isHash)
			if h == nil {
				return
			}
			ks := make([]string, 0, len(h.keys))
			for k := range h.keys {
				ks = append(ks, k)
			}
			sort.Strings(ks)
			k := Pick(r, ks)
			probe(h.name+"["+k+"]", h.keys[k], "hash-key")
		}
	}
	for i := 0; i < n; i++ {
		if r.Chance(1, 5) {
			collOp()
			continue
		}
		if r.Chance(1, 9) {
			// reassignment: the variable has the type of its most recent assignment
			v := Pick(r, vars)
			l, t := valueOf(Pick(r, classes))
			v.ty, v.keys = t, nil
			add(&tStmt{Text: v.name + " = " + l, Kind: "assign-literal", Tainted: tainted})
			probe(v.name, t, "reassign")
			continue
		}
		recv := Pick(r, vars)
		if recv.ty.Unknown {
			continue
		}
		// choose a method: mostly one some receiver class declares
		var method string
		var decl *ModelMethod
		cl := Pick(r, recv.ty.Atoms)
		if mc := model.Classes["Builtin::"+cl]; mc != nil && !r.Chance(1, 10) {
			// own methods and those of the configured ancestors
			nameSet := map[string]bool{}
			var walk func(c *ModelClass, depth int)
			walk = func(c *ModelClass, depth int) {
				if c == nil || depth > 6 {
					return
				}
				for nm := range c.Instance {
					if plainMethodRe.MatchString(nm) {
						nameSet[nm] = true
					}
				}
				for _, e := range c.Extends {
					walk(model.Classes["Builtin::"+e], depth+1)
				}
			}
			walk(mc, 0)
			if r.Chance(1, 3) {
				// what every object answers (Object is class "" of the configuration)
				nameSet = map[string]bool{}
				walk(model.Classes["Builtin::"], 6)
			}
			names := make([]string, 0, len(nameSet))
			for nm := range nameSet {
				names = append(names, nm)
			}
			sort.Strings(names)
			if len(names) > 0 {
				method = Pick(r, names)
				if r.Chance(1, 3) {
					// prefer a method that declares two or more keywords
					var kwNames []string
					for _, nm := range names {
						for _, d := range model.Lookup(cl, nm, false) {
							nk := 0
							for _, p := range d.Params {
								if p.Key != "" {
									nk++
								}
							}
							if nk >= 2 {
								kwNames = append(kwNames, nm)
								break
							}
						}
					}
					if len(kwNames) > 0 {
						method = Pick(r, kwNames)
					}
				}
				if r.Chance(1, 4) {
					// prefer a method with a positional parameter that is a union of
					// three or more classes (a union argument can be a strict subset)
					var wide []string
					for _, nm := range names {
						// (or one that is declared more than once, or one of Object's
						// methods that the class or an ancestor redeclares with parameters)
						ds := model.Lookup(cl, nm, false)
						isWide := len(ds) > 1 || ((nm == "inspect" || nm == "to_s") && len(ds) == 1 && len(ds[0].Params) > 0)
						for _, d := range model.Lookup(cl, nm, false) {
							for _, p := range d.Params {
								if p.Key == "" && len(p.Type.Atoms) >= 3 && !p.Type.Untyped {
									isWide = true
								}
							}
						}
						if isWide {
							wide = append(wide, nm)
						}
					}
					if len(wide) > 0 {
						method = Pick(r, wide)
					}
				}
				if decls := model.Lookup(cl, method, false); len(decls) > 0 {
					decl = Pick(r, decls)
				}
			}
		}
		if method == "" {
			method = Pick(r, []string{"zz_undefined", "frobnicate", "no_such"})
		}
		// arguments
		var argTexts []string
		var argTypes []MT
		nargs := 0
		if decl != nil {
			req, max := decl.Arity()
			nargs = req
			if max > req && r.Bool() {
				nargs = req + 1 + r.Intn(max-req)
			}
			if max < 0 && r.Bool() {
				nargs = req + r.Intn(3)
			}
			switch r.Intn(8) {
			case 0:
				nargs++ // possibly too many
			case 1:
				if nargs > 0 {
					nargs-- // possibly too few
				}
			}
		} else {
			nargs = r.Intn(2)
		}
		for a := 0; a < nargs; a++ {
			var want *TypeSet
			if decl != nil {
				pos := 0
				for pi := range decl.Params {
					if decl.Params[pi].Key != "" {
						continue
					}
					if pos == a || decl.Params[pi].Rest {
						want = &decl.Params[pi].Type
						break
					}
					pos++
				}
			}
			switch {
			case want != nil && want.Untyped && (r.Bool() || len(want.Atoms) > 0):
				// the parameter takes anything: pass a union of two arbitrary classes
				a, b := Pick(r, scalarClasses), Pick(r, scalarClasses)
				if a == b {
					b = "Symbol"
					if a == "Symbol" {
						b = "Integer"
					}
				}
				la, _ := literalOfClass(r, a)
				lb, _ := literalOfClass(r, b)
				uv := newVar(mt(a, b))
				add(&tStmt{Text: fmt.Sprintf("%s = flag ? %s : %s", uv.name, la, lb), Kind: "assign-union"})
				// ... or of three or four: wider than any union the declaration spells out
				// (for a declared union with an untyped member: more variants than the declaration has)
				for k := 0; k < 4 && (len(uv.ty.Atoms) < len(want.Atoms)+2 && len(want.Atoms) > 0 || r.Chance(1, 3)); k++ {
					c := Pick(r, scalarClasses)
					if contains(uv.ty.Atoms, c) {
						continue
					}
					lc, _ := literalOfClass(r, c)
					wv := newVar(mt(append(append([]string{}, uv.ty.Atoms...), c)...))
					add(&tStmt{Text: fmt.Sprintf("%s = flag ? %s : %s", wv.name, uv.name, lc), Kind: "assign-union"})
					uv = wv
				}
				argTexts = append(argTexts, uv.name)
				argTypes = append(argTypes, uv.ty)
			case want != nil && len(want.Atoms) > 0 && want.Elem == nil && !r.Chance(1, 5):
				// a fitting value: a literal, a variable of that class, or a union of accepted classes
				acl := Pick(r, want.Atoms)
				if len(want.Atoms) > 1 && (r.Chance(1, 3) || (len(want.Atoms) > 2 && r.Bool())) {
					// union argument, all variants accepted
					b := Pick(r, want.Atoms)
					if b != acl && acl != "Array" && b != "Array" {
						la, _ := valueOf(acl)
						lb, _ := valueOf(b)
						uv := newVar(mt(acl, b))
						add(&tStmt{Text: fmt.Sprintf("%s = flag ? %s : %s", uv.name, la, lb), Kind: "assign-union"})
						argTexts = append(argTexts, uv.name)
						argTypes = append(argTypes, uv.ty)
						continue
					}
				}
				var cands []*tVar
				for _, v := range vars {
					if len(v.ty.Atoms) == 1 && v.ty.Atoms[0] == acl && !v.ty.Unknown {
						cands = append(cands, v)
					}
				}
				if len(cands) > 0 && r.Bool() {
					v := Pick(r, cands)
					argTexts = append(argTexts, v.name)
					argTypes = append(argTypes, v.ty)
				} else {
					l, t := valueOf(acl)
					argTexts = append(argTexts, l)
					argTypes = append(argTypes, t)
				}
			default:
				// any value (possibly of a rejected class)
				if len(vars) > 0 && r.Bool() {
					v := Pick(r, vars)
					argTexts = append(argTexts, v.name)
					argTypes = append(argTypes, v.ty)
				} else {
					l, t := valueOf(Pick(r, classes))
					argTexts = append(argTexts, l)
					argTypes = append(argTypes, t)
				}
			}
		}
		// keyword arguments of the chosen declaration
		var kwTypes map[string]MT
		if decl != nil {
			for pi := range decl.Params {
				p := &decl.Params[pi]
				if p.Key == "" || p.Rest || (p.Default && r.Bool()) {
					continue
				}
				var l string
				var t MT
				if len(p.Type.Atoms) > 0 && p.Type.Elem == nil && !r.Chance(1, 3) {
					l, t = valueOf(Pick(r, p.Type.Atoms))
				} else {
					l, t = valueOf(Pick(r, classes))
				}
				if kwTypes == nil {
					kwTypes = map[string]MT{}
				}
				kwTypes[p.Key] = t
				argTexts = append(argTexts, p.Key+": "+l)
			}
			if len(kwTypes) > 1 && r.Bool() {
				// callers may write keywords in any order
				n := len(argTexts) - len(kwTypes)
				kws := argTexts[n:]
				kws[0], kws[len(kws)-1] = kws[len(kws)-1], kws[0]
			}
		}
		j := judgeCall(model, recv.ty, method, argTypes, false, "", kwTypes)
		call := recv.name + "." + method
		if len(argTexts) > 0 {
			call += "(" + strings.Join(argTexts, ", ") + ")"
		}
		// a destructive method may change what the receiver variable holds
		invalidate := strings.HasSuffix(method, "!") || unmodelledMethods[method]
		for _, rcl := range recv.ty.Atoms {
			for _, d := range model.Lookup(rcl, method, false) {
				if d.Destructive {
					invalidate = true
				}
			}
		}
		recvTyAtCall := recv.ty
		res := newVar(MT{Unknown: true})
		feature := "recv=" + recvKind(recvTyAtCall) + ":args=" + argShape(argTypes)
		if len(kwTypes) > 0 {
			feature += fmt.Sprintf(":kw=%d", len(kwTypes))
		}
		if invalidate {
			recv.ty = MT{Unknown: true}
		}
		if r.Chance(1, 4) {
			// the call nested in a conditional, loop or block body; its value is not kept
			w := Pick(r, [][2][]string{
				{{"if flag"}, {"end"}}, {{"unless flag"}, {"end"}}, {{"while flag"}, {"end"}}, {{"[1].each do |q|"}, {"end"}},
				{{"if flag", "else"}, {"end"}}, {{"if flag", "  unless flag"}, {"  end", "end"}}, {{"[1].each { |q|"}, {"}"}},
				{{"if flag", "  flag = true", "elsif flag"}, {"end"}},
			})
			for _, l := range w[0] {
				add(&tStmt{Text: l, Kind: "open"})
			}
			add(&tStmt{Text: "    " + call, Kind: "call", Verdict: j.verdict, Reason: j.reason, Feature: "nested:" + feature, Tainted: tainted})
			for _, l := range w[1] {
				add(&tStmt{Text: l, Kind: "open"})
			}
			if j.verdict == "fail" {
				tainted = true
			}
			vars = vars[:len(vars)-1] // the result variable was not created
			continue
		}
		st := &tStmt{Text: res.name + " = " + call, Kind: "call", Verdict: j.verdict, Reason: j.reason, Feature: feature, Tainted: tainted}
		var cont []string
		// one of several declarations takes no parameters: whether the tokens
		// after a call without parentheses are arguments must not hang on the
		// first declaration only, so that form is chosen more often here
		emptyOverload := false
		for _, rcl := range recvTyAtCall.Atoms {
			ds := model.Lookup(rcl, method, false)
			for _, d := range ds {
				if len(ds) > 1 && len(d.Params) == 0 {
					emptyOverload = true
				}
			}
		}
		noParens := len(argTexts) >= 1 && !strings.ContainsAny(argTexts[0][:1], "[-({*&") &&
			((emptyOverload && r.Bool()) || r.Chance(1, 8))
		switch {
		case noParens:
			// the argument list without parentheses
			st.Text = res.name + " = " + recv.name + "." + method + " " + strings.Join(argTexts, ", ")
			st.Feature = "no-parens:" + feature
			// ti leaves what follows a method without declared parameters alone
			// (listed finding): such calls get one signature of their own
			// (for a union receiver: one member whose declarations all are
			// parameterless is enough, ti decides from that member's declaration,
			// and the call certainly fails for that member whatever the others say)
			parameterless := false
			for _, rcl := range recvTyAtCall.Atoms {
				ds := model.Lookup(rcl, method, false)
				memberEmpty := len(ds) > 0
				for _, d := range ds {
					if len(d.Params) > 0 {
						memberEmpty = false
					}
				}
				if memberEmpty {
					parameterless = true
				}
			}
			if parameterless {
				st.Feature = "no-parens:parameterless-method"
			}
		case len(argTexts) >= 2 && r.Chance(1, 4):
			// the argument list broken over lines: the call is the line it starts on
			st.Text = res.name + " = " + recv.name + "." + method + "(" + argTexts[0] + ","
			cont = []string{"  " + strings.Join(argTexts[1:], ", ") + ")"}
			if len(argTexts) >= 3 && r.Bool() {
				cont = []string{"  " + argTexts[1] + ",", "  " + strings.Join(argTexts[2:], ", ") + ")"}
			}
			st.Feature = "multiline:" + feature
		case len(argTexts) >= 1 && r.Chance(1, 8):
			st.Text = res.name + " = " + recv.name + "." + method + "("
			cont = []string{"  " + strings.Join(argTexts, ", "), ")"}
			st.Feature = "multiline:" + feature
		case j.verdict == "fail" && j.reason == "undefined" && r.Chance(1, 3):
			// an undefined method called with a block of several lines
			if r.Bool() {
				st.Text = res.name + " = " + call + " do |q|"
				cont = []string{"  q", "end"}
			} else {
				st.Text = res.name + " = " + call + " { |q|"
				cont = []string{"  q", "}"}
			}
			st.Feature = "multiline-block:" + feature
		}
		add(st)
		for _, l := range cont {
			k := "cont-ok"
			if j.verdict != "ok" {
				k = "open"
			}
			add(&tStmt{Text: l, Kind: k, Feature: st.Feature, Tainted: tainted})
		}
		switch j.verdict {
		case "ok":
			res.ty = j.ret
			if !j.ret.Unknown {
				w := j.ret
				add(&tStmt{Text: "dbtp " + res.name, Kind: "probe", Want: &w, RetKind: j.retKind, Tainted: tainted})
			} else {
				add(&tStmt{Text: "dbtp " + res.name, Kind: "probe", RetKind: j.retKind, Tainted: tainted})
			}
		case "fail":
			tainted = true // later rows are judged by C07 only when their inputs are known
		default:
			add(&tStmt{Text: "dbtp " + res.name, Kind: "probe", Tainted: tainted})
		}
	}
	return stmts
}

type tVarRef struct {
	name string
	ty   MT
}

func recvKind(t MT) string {
	switch {
	case t.Unknown:
		return "unknown"
	case len(t.Atoms) > 1:
		return "union"
	case len(t.Atoms) == 1:
		return t.Atoms[0]
	}
	return "?"
}

func argShape(args []MT) string {
	if len(args) == 0 {
		return "none"
	}
	var parts []string
	for _, a := range args {
		switch {
		case a.Unknown:
			parts = append(parts, "unknown")
		case len(a.Atoms) > 1:
			parts = append(parts, "union")
		case len(a.Atoms) == 1 && a.Atoms[0] == "Array":
			parts = append(parts, "array")
		default:
			parts = append(parts, "scalar")
		}
	}
	return strings.Join(parts, ",")
}

// judgeTyped runs one program and applies the predicate of the asked property.
func judgeTyped(c *CheckCtx, rn Runner, tc *typedCase, prop string) *Violation {
	cfg := tc.Cfg.build()
	if len(tc.Cfg.Extra) == 0 && len(tc.Cfg.Rename) == 0 {
		cfg = nil
	}
	src := tc.source()
	out, ok := relRun(c, rn, &Exec{Files: map[string]string{targetFile: src}, Argv: []string{targetFile}, Config: cfg})
	if !ok {
		c.Event("skipped_crash_or_hang", 1)
		return nil
	}
	byRow := map[int][]Rec{}
	for _, r := range parseOut(out) {
		if r.Row > 0 && !r.Hint {
			byRow[r.Row] = append(byRow[r.Row], r)
		}
	}
	firstFail := 1 << 30
	for i, s := range tc.Stmts {
		if s.Kind == "call" && s.Verdict == "fail" && i+1 < firstFail {
			firstFail = i + 1
		}
	}
	c.Nontrivial(prop + "\x00" + src)
	for i, s := range tc.Stmts {
		row := i + 1
		switch {
		case prop == "C07" && s.Kind == "call" && s.Verdict == "fail":
			c.Event("certain_fail_calls_judged", 1)
			if len(byRow[row]) == 0 {
				reason := s.Reason
				if s.Feature == "no-parens:parameterless-method" {
					// one listed finding, whichever of the call's faults the model names first
					reason = "arity"
				}
				return &Violation{Sig: "missed:" + reason + ":" + s.Feature, Kind: "typed", Case: mustJSON(tc),
					What:     fmt.Sprintf("row %d `%s` certainly fails under the configuration (%s) but no diagnostic is reported on its row", row, s.Text, s.Reason),
					Observed: clip(out, 2500)}
			}
		case prop == "C08" && s.Kind == "call" && s.Verdict == "ok" && row < firstFail:
			c.Event("certain_ok_calls_judged", 1)
			if len(byRow[row]) > 0 {
				return &Violation{Sig: "false-alarm:" + s.Feature + ":" + msgTemplate(byRow[row][0].Msg), Kind: "typed", Case: mustJSON(tc),
					What:     fmt.Sprintf("row %d `%s` is certainly accepted by the configuration but ti reports: %s", row, s.Text, byRow[row][0].Msg),
					Observed: clip(out, 2500)}
			}
		case prop == "C08" && s.Kind == "cont-ok" && row < firstFail:
			if len(byRow[row]) > 0 {
				return &Violation{Sig: "false-alarm:" + s.Feature + ":" + msgTemplate(byRow[row][0].Msg), Kind: "typed", Case: mustJSON(tc),
					What:     fmt.Sprintf("row %d `%s` continues a call the configuration certainly accepts but ti reports: %s", row, s.Text, byRow[row][0].Msg),
					Observed: clip(out, 2500)}
			}
		case prop == "C08" && s.Kind == "coll" && row < firstFail:
			c.Event("collection_statements_judged", 1)
			if len(byRow[row]) > 0 {
				return &Violation{Sig: "false-alarm:" + s.Feature + ":" + msgTemplate(byRow[row][0].Msg), Kind: "typed", Case: mustJSON(tc),
					What:     fmt.Sprintf("row %d `%s` is a literal/index/growth statement over known values but ti reports: %s", row, s.Text, byRow[row][0].Msg),
					Observed: clip(out, 2500)}
			}
		case prop == "C09" && s.Kind == "probe" && s.Leaves != nil && row < firstFail:
			c.Event("nested_probes_judged", 1)
			recs := byRow[row]
			if len(recs) != 1 {
				return &Violation{Sig: "probe-output:" + s.RetKind, Kind: "typed", Case: mustJSON(tc),
					What: fmt.Sprintf("row %d `%s`: expected exactly one type line, got %d", row, s.Text, len(recs)), Observed: clip(out, 2500)}
			}
			got, okl := typeLeaves(recs[0].Msg)
			if !okl {
				c.Event("probe_types_not_parsed", 1)
				continue
			}
			if strings.Join(got, " ") != strings.Join(s.Leaves, " ") {
				return &Violation{Sig: "wrong-leaves:" + s.RetKind + ":" + strings.Join(s.Leaves, ",") + "=>" + strings.Join(got, ","), Kind: "typed", Case: mustJSON(tc),
					What:     fmt.Sprintf("row %d `%s`: ti reports %s; the element classes by array depth must be %v", row, s.Text, recs[0].Msg, s.Leaves),
					Observed: clip(out, 2500)}
			}
		case (prop == "C09" || prop == "C10") && s.Kind == "probe" && s.Want != nil && row < firstFail:
			c.Event("probes_judged", 1)
			recs := byRow[row]
			if len(recs) != 1 {
				return &Violation{Sig: "probe-output:" + s.RetKind, Kind: "typed", Case: mustJSON(tc),
					What: fmt.Sprintf("row %d `%s`: expected exactly one type line, got %d", row, s.Text, len(recs)), Observed: clip(out, 2500)}
			}
			if nestedUnion(recs[0].Msg) {
				return &Violation{Sig: "union-not-flat:ret=" + s.RetKind, Kind: "typed", Case: mustJSON(tc),
					What:     fmt.Sprintf("row %d `%s`: ti reports %s, a union written inside a union (the model gives %s)", row, s.Text, recs[0].Msg, s.Want.String()),
					Observed: clip(out, 2500)}
			}
			got, okp := parseTiType(recs[0].Msg)
			if !okp {
				c.Event("probe_types_not_parsed", 1)
				continue
			}
			if !got.equal(*s.Want) {
				return &Violation{Sig: "wrong-type:ret=" + s.RetKind + ":" + s.Want.String() + "=>" + got.String(), Kind: "typed", Case: mustJSON(tc),
					What:     fmt.Sprintf("row %d `%s`: ti reports %s, the reference model gives %s", row, s.Text, recs[0].Msg, s.Want.String()),
					Observed: clip(out, 2500)}
			}
		}
	}
	return nil
}

func typedCheck(id, title, rule string) *Check {
	return &Check{ID: id, Title: title,
		Replay: func(c *CheckCtx, s *Slot, v *Violation) *Violation {
			var tc typedCase
			if json.Unmarshal(v.Case, &tc) != nil {
				return nil
			}
			return judgeTyped(c, s.BlackBox(), &tc, id)
		},
		Run: func(c *CheckCtx) {
			c.rule = rule
			c.assumptions = []string{"the reference model is deliberately partial: it only claims what the property statement and docs/ti-config.md say; calls it cannot decide (keyword or block parameters, rest parameter types, typed array elements, undocumented type names, special strategies, is_conditional results) are grey and not judged", "candidates found in-process are confirmed on the plain binary"}
			r := c.RNG.Sub(7)
			type job struct {
				tc *typedCase
			}
			var jobs []*typedCase
			shipped, err := BuildModel(ShippedConfig())
			if err != nil {
				c.Inconclusive("cannot read the shipped configuration: " + err.Error())
				return
			}
			for k := 0; k < c.N(160, 4000); k++ {
				jobs = append(jobs, &typedCase{Stmts: genTypedProgram(r, shipped, nil, 6+r.Intn(8))})
			}
			// generated configurations
			for g := 0; g < c.N(4, 40); g++ {
				classes := genClasses(r, 2+r.Intn(3), "")
				extra := map[string]string{}
				compactCfg := g%2 == 1
				for _, cl := range classes {
					// every other generated configuration is written in the compact
					// notation (A|B, ?T, *T, [T], Int, OptionalT)
					extra["zz_"+strings.ToLower(cl.Name)+".json"] = cl.toJSON(Notation{Compact: compactCfg}, r, nil)
				}
				spec := CfgSpec{Extra: extra}
				model, err := BuildModel(spec.build())
				if err != nil {
					continue
				}
				for k := 0; k < c.N(40, 250); k++ {
					jobs = append(jobs, &typedCase{Cfg: spec, Stmts: genTypedProgramUser(r, model, classes, 6+r.Intn(8))})
				}
			}
			certain := map[string]int{}
			for _, tc := range jobs {
				for _, s := range tc.Stmts {
					if s.Kind == "call" {
						certain["calls_"+s.Verdict]++
					}
					if s.Kind == "probe" {
						if s.Want != nil {
							certain["probes_certain"]++
						} else {
							certain["probes_grey"]++
						}
					}
				}
			}
			c.Extra("model_claims", certain)
			// group by configuration so that each lane keeps its worker
			sort.SliceStable(jobs, func(i, j int) bool { return jobs[i].Cfg.build().Hash() < jobs[j].Cfg.build().Hash() })
			const chunk = 20
			nchunks := (len(jobs) + chunk - 1) / chunk
			c.Eng.Map(nchunks, func(s *Slot, ci int) {
				for i := ci * chunk; i < (ci+1)*chunk && i < len(jobs); i++ {
					tc := jobs[i]
					if i%173 == 0 {
						c.Sample(map[string]any{"source": tc.source(), "generated_config_files": sortedKeys(tc.Cfg.Extra)})
					}
					if v := exploreThenJudge(c, s, func(rn Runner) *Violation { return judgeTyped(c, rn, tc, id) }); v != nil {
						c.Report(v)
					}
				}
			})
		}}
}

// genTypedProgramUser prefers receivers of the generated classes.
func genTypedProgramUser(r *RNG, model *CfgModel, classes []*GClass, n int) []*tStmt {
	return genTypedProgram(r, model, classes, n)
}

func init() {
	register(typedCheck("C07", "definite misuse of configured builtins is reported on its line",
		"generated straight-line programs over literals, locals, unions built with ternaries and configured classes (shipped configuration and generated configurations with extends chains, overloads, defaults, rest parameters, unions); every judged call is on its own line; the reference model (documented meaning of .ti-config) marks a call certain-fail when no receiver class declares or inherits the method, when the argument count is outside every declaration of every receiver class, or when some argument's classes are all rejected by every arity-admitting declaration; oracle: a diagnostic exists on that row. distinct_nontrivial = distinct programs"))
	register(typedCheck("C08", "no false alarms on calls the configuration certainly accepts",
		"same generator and model as C07; a call is certain-ok when every receiver class has a declaration whose arity admits it and whose parameter types contain every class of the corresponding argument (a union argument whose variants are all accepted fits); only rows before the first certain-fail row are judged; oracle: no diagnostic on that row. distinct_nontrivial = distinct programs"))
	register(typedCheck("C09", "inferred types agree with literals and declared return types",
		"same generator and model as C07; every assignment is followed by a dbtp probe; for rows before the first certain failure the printed type, parsed as a set, must equal the model's: literal classes, element unions of array literals, union of ternary branches, and for certain-ok calls the declared return type with Self, Unify, OptionalUnify, Argument, [T]/TArray and unions resolved as documented (is_conditional results and undocumented names are grey). distinct_nontrivial = distinct programs"))
}

func sortedCopy(xs []string) []string {
	o := append([]string{}, xs...)
	sort.Strings(o)
	return o
}
