package main

import (
	"bufio"
	"bytes"
	"context"
	"crypto/sha256"
	"encoding/base64"
	"encoding/hex"
	"encoding/json"
	"errors"
	"fmt"
	"io"
	"os"
	"os/exec"
	"path/filepath"
	"runtime/debug"
	"sort"
	"strings"
	"sync"
	"sync/atomic"
	"syscall"
	"time"
)

// ---------------------------------------------------------------------------
// environment

var (
	repoDir  = envOr("VERIF_REPO", "/repo")
	verifDir = envOr("VERIF_HOME", "/verif")
)

func envOr(k, d string) string {
	if v := os.Getenv(k); v != "" {
		return v
	}
	return d
}

func envInt(k string, d int) int {
	if v := os.Getenv(k); v != "" {
		var n int
		if _, err := fmt.Sscanf(v, "%d", &n); err == nil {
			return n
		}
	}
	return d
}

// scratchRoot is where all temporary state of one harness process lives
// (binaries built from the tree, worker directories). It is outside /repo
// and /verif and removed on exit.
var scratchRoot string

func initScratch() {
	base := "/dev/shm"
	if st, err := os.Stat(base); err != nil || !st.IsDir() {
		base = os.TempDir()
	}
	d, err := os.MkdirTemp(base, "verif-")
	if err != nil {
		d, err = os.MkdirTemp("", "verif-")
		if err != nil {
			fatalf("cannot create scratch directory: %v", err)
		}
	}
	scratchRoot = d
}

func cleanupScratch() {
	if scratchRoot != "" {
		os.RemoveAll(scratchRoot)
	}
}

type inconclusive struct{ msg string }

func fatalf(format string, a ...any) {
	panic(inconclusive{fmt.Sprintf(format, a...)})
}

// ---------------------------------------------------------------------------
// builds

type Builds struct {
	Plain    string // ti
	Verif    string // ti built with -tags verif
	Race     string // ti built with -race -tags verif (on demand)
	Rbs2json string
	C2json   string
	Degraded bool // tagged build failed; black-box only
	mu       sync.Mutex
}

func goEnv() []string {
	env := []string{}
	for _, e := range os.Environ() {
		if strings.HasPrefix(e, "GOFLAGS=") || strings.HasPrefix(e, "GOPROXY=") ||
			strings.HasPrefix(e, "GOSUMDB=") || strings.HasPrefix(e, "GOTOOLCHAIN=") ||
			strings.HasPrefix(e, "GOWORK=") {
			continue
		}
		env = append(env, e)
	}
	env = append(env, "GOFLAGS=-mod=mod", "GOPROXY=off", "GOTOOLCHAIN=auto", "GOWORK=off")
	return env
}

func goBuild(out string, args ...string) error {
	a := append([]string{"build", "-o", out}, args...)
	cmd := exec.Command("go", a...)
	cmd.Dir = repoDir
	cmd.Env = goEnv()
	var buf bytes.Buffer
	cmd.Stdout = &buf
	cmd.Stderr = &buf
	if err := cmd.Run(); err != nil {
		return fmt.Errorf("go %s: %v\n%s", strings.Join(a, " "), err, buf.String())
	}
	return nil
}

func buildAll(needTools bool) *Builds {
	b := &Builds{}
	bin := filepath.Join(scratchRoot, "bin")
	os.MkdirAll(bin, 0o755)
	b.Plain = filepath.Join(bin, "ti")
	if err := goBuild(b.Plain, "."); err != nil {
		fatalf("plain build of %s failed: %v", repoDir, err)
	}
	b.Verif = filepath.Join(bin, "ti-verif")
	if err := goBuild(b.Verif, "-tags", "verif", "."); err != nil {
		fmt.Fprintf(os.Stderr, "verif: tagged build failed, degrading to black-box only: %v\n", err)
		b.Degraded = true
		b.Verif = ""
	}
	if needTools {
		b.Rbs2json = filepath.Join(bin, "ti-rbs2json")
		if err := goBuild(b.Rbs2json, "./cmd/rbs2json"); err != nil {
			fatalf("rbs2json build failed: %v", err)
		}
		b.C2json = filepath.Join(bin, "ti-c2json")
		if err := goBuild(b.C2json, "./cmd/c2json"); err != nil {
			fatalf("c2json build failed: %v", err)
		}
	}
	return b
}

func (b *Builds) NeedRace() string {
	b.mu.Lock()
	defer b.mu.Unlock()
	if b.Race != "" {
		return b.Race
	}
	out := filepath.Join(scratchRoot, "bin", "ti-race")
	if err := goBuild(out, "-race", "-tags", "verif", "."); err != nil {
		fmt.Fprintf(os.Stderr, "verif: race build failed: %v\n", err)
		return ""
	}
	b.Race = out
	return out
}

// ---------------------------------------------------------------------------
// configurations

// Config is a .ti-config directory given as file name -> content.
type Config struct {
	Files map[string]string
	hash  string
}

func (c *Config) Hash() string {
	if c.hash != "" {
		return c.hash
	}
	names := make([]string, 0, len(c.Files))
	for n := range c.Files {
		names = append(names, n)
	}
	sort.Strings(names)
	h := sha256.New()
	for _, n := range names {
		fmt.Fprintf(h, "%d:%s:%d:", len(n), n, len(c.Files[n]))
		io.WriteString(h, c.Files[n])
	}
	c.hash = hex.EncodeToString(h.Sum(nil))[:16]
	return c.hash
}

var (
	shippedOnce sync.Once
	shippedCfg  *Config
)

// ShippedConfig is the configuration the golden tests run under.
func ShippedConfig() *Config {
	shippedOnce.Do(func() {
		dir := filepath.Join(repoDir, "test", ".ti-config")
		ents, err := os.ReadDir(dir)
		if err != nil {
			fatalf("cannot read %s: %v", dir, err)
		}
		c := &Config{Files: map[string]string{}}
		for _, e := range ents {
			if e.IsDir() {
				continue
			}
			data, err := os.ReadFile(filepath.Join(dir, e.Name()))
			if err != nil {
				fatalf("cannot read %s: %v", e.Name(), err)
			}
			c.Files[e.Name()] = string(data)
		}
		shippedCfg = c
	})
	return shippedCfg
}

// ---------------------------------------------------------------------------
// executions

// Exec is one execution of ti: files in the working directory, argv after
// the program name, optional preload list, the configuration.
type Exec struct {
	Files   map[string]string `json:"files"`
	Argv    []string          `json:"argv"`
	Preload []string          `json:"preload,omitempty"`
	Config  *Config           `json:"-"`
	CfgJSON map[string]string `json:"config,omitempty"` // only in replay files, nil = shipped
	Dump    bool              `json:"dump,omitempty"`
	Env     []string          `json:"env,omitempty"` // black-box only
}

type DumpDiff struct {
	Key    string `json:"key"`
	Before string `json:"before"`
	After  string `json:"after"`
}

// Result is the execution record a monitor judges.
type Result struct {
	Stdout    string     `json:"stdout"`
	Stderr    string     `json:"stderr,omitempty"`
	Exit      int        `json:"exit"`
	Panic     string     `json:"panic,omitempty"`
	Stack     string     `json:"stack,omitempty"`
	Budget    string     `json:"budget,omitempty"` // logical watchdog: eof | tokens
	Died      bool       `json:"died,omitempty"`   // in-process worker died or stalled
	DiedMsg   string     `json:"died_msg,omitempty"`
	Watchdog  bool       `json:"watchdog,omitempty"` // harness wall clock fired: inconclusive
	Tokens    int64      `json:"tokens,omitempty"`
	EOFReads  int64      `json:"eof_reads,omitempty"`
	Walks     int64      `json:"walks,omitempty"`
	DumpDiff  []DumpDiff `json:"dump_diff,omitempty"`
	DumpSize  int        `json:"dump_size,omitempty"`
	BlackBox  bool       `json:"black_box"`
	WallUs    int64      `json:"wall_us,omitempty"`
	RunInputN int        `json:"-"`
}

// Normal reports a finished analysis (no crash, no hang, status 0).
func (r *Result) Normal() bool {
	return r.Exit == 0 && r.Panic == "" && r.Budget == "" && !r.Died && !r.Watchdog
}

// Timeout reports the product's own watchdog output.
func (r *Result) Timeout() bool {
	// the watchdog goroutine prints its line while main may still be printing
	// records: the line can be anywhere in the output
	return r.BlackBox && r.Exit == 1 && (strings.HasPrefix(r.Stdout, "timeout\n") || strings.Contains(r.Stdout, "\ntimeout\n"))
}

func (r *Result) Crashed() bool {
	if r.BlackBox {
		return r.Exit == 2 || strings.Contains(r.Stderr, "panic:") || strings.Contains(r.Stderr, "fatal error:") || r.Exit < 0
	}
	return r.Panic != "" || (r.Died && !r.Watchdog)
}

// Runner executes Execs. Two implementations: the in-process explorer and
// the black-box judge.
type Runner interface {
	Run(e *Exec) *Result
	IsBlackBox() bool
}

// ---------------------------------------------------------------------------
// slot: one sequential lane of execution with its own directories/workers

type serveProc struct {
	cmd    *exec.Cmd
	stdin  io.WriteCloser
	stdout *bufio.Reader
	stderr *bytes.Buffer
	dir    string
	nextID int
	used   int64
	race   bool
}

type Slot struct {
	id      int
	eng     *Engine
	root    string
	dirs    map[string]string     // config hash -> directory
	procs   map[string]*serveProc // config hash -> serve worker
	order   []string              // LRU of procs
	useRace bool
}

type Engine struct {
	B            *Builds
	Workers      int
	slots        []*Slot
	pause        sync.RWMutex
	InprocRuns   atomic.Int64
	BlackboxRuns atomic.Int64
	WorkerDeaths atomic.Int64
	MaxTokens    atomic.Int64
	MaxEOF       atomic.Int64
	MaxWalks     atomic.Int64
	MaxTokPerRune atomic.Int64 // x1000
	RaceLogDir   string
}

func NewEngine(b *Builds) *Engine {
	e := &Engine{B: b, Workers: envInt("VERIF_WORKERS", 6)}
	for i := 0; i < e.Workers+1; i++ {
		root := filepath.Join(scratchRoot, fmt.Sprintf("slot%d", i))
		os.MkdirAll(root, 0o755)
		e.slots = append(e.slots, &Slot{id: i, eng: e, root: root, dirs: map[string]string{}, procs: map[string]*serveProc{}})
	}
	return e
}

func (e *Engine) Close() {
	for _, s := range e.slots {
		s.closeAll()
	}
}

// MainSlot is used by sequential code outside Map.
func (e *Engine) MainSlot() *Slot { return e.slots[e.Workers] }

// Map runs fn(slot, i) for i in [0,n) on the worker slots.
func (e *Engine) Map(n int, fn func(s *Slot, i int)) {
	var next atomic.Int64
	var wg sync.WaitGroup
	var panicMu sync.Mutex
	var firstPanic any
	for w := 0; w < e.Workers; w++ {
		wg.Add(1)
		go func(s *Slot) {
			defer wg.Done()
			defer func() {
				if r := recover(); r != nil {
					panicMu.Lock()
					if firstPanic == nil {
						if _, ok := r.(inconclusive); ok {
							firstPanic = r
						} else {
							firstPanic = fmt.Sprintf("%v\n%s", r, debug.Stack())
						}
					}
					panicMu.Unlock()
				}
			}()
			for {
				i := int(next.Add(1) - 1)
				if i >= n {
					return
				}
				panicMu.Lock()
				stop := firstPanic != nil
				panicMu.Unlock()
				if stop {
					return
				}
				fn(s, i)
			}
		}(e.slots[w])
	}
	wg.Wait()
	if firstPanic != nil {
		panic(firstPanic)
	}
}

func (s *Slot) dirFor(cfg *Config) string {
	if cfg == nil {
		cfg = ShippedConfig()
	}
	h := cfg.Hash()
	if d, ok := s.dirs[h]; ok {
		return d
	}
	// keep the number of directories bounded
	if len(s.dirs) > 24 {
		for k, d := range s.dirs {
			if p, ok := s.procs[k]; ok {
				s.kill(p)
				delete(s.procs, k)
			}
			os.RemoveAll(d)
			delete(s.dirs, k)
		}
		s.order = nil
	}
	d := filepath.Join(s.root, h)
	os.MkdirAll(filepath.Join(d, ".ti-config"), 0o755)
	for n, c := range cfg.Files {
		if err := os.WriteFile(filepath.Join(d, ".ti-config", n), []byte(c), 0o644); err != nil {
			fatalf("write config: %v", err)
		}
	}
	s.dirs[h] = d
	return d
}

func (s *Slot) prepare(e *Exec) string {
	d := s.dirFor(e.Config)
	for n, c := range e.Files {
		p := filepath.Join(d, n)
		if strings.Contains(n, "/") {
			os.MkdirAll(filepath.Dir(p), 0o755)
		}
		if err := os.WriteFile(p, []byte(c), 0o644); err != nil {
			fatalf("write case file: %v", err)
		}
	}
	lp := filepath.Join(d, ".ti-loader.json")
	if len(e.Preload) > 0 {
		data, _ := json.Marshal(map[string]any{"preload": e.Preload})
		os.WriteFile(lp, data, 0o644)
	} else {
		os.Remove(lp)
	}
	return d
}

func (s *Slot) kill(p *serveProc) {
	if p == nil || p.cmd == nil {
		return
	}
	p.stdin.Close()
	if p.cmd.Process != nil {
		p.cmd.Process.Kill()
	}
	p.cmd.Wait()
}

func (s *Slot) closeAll() {
	for k, p := range s.procs {
		s.kill(p)
		delete(s.procs, k)
	}
}

func (s *Slot) procFor(cfg *Config, dir string) (*serveProc, error) {
	if cfg == nil {
		cfg = ShippedConfig()
	}
	h := cfg.Hash()
	if p, ok := s.procs[h]; ok && p.race == s.useRace {
		return p, nil
	} else if ok {
		s.kill(p)
		delete(s.procs, h)
	}
	if len(s.procs) >= 3 {
		// evict the oldest
		old := s.order[0]
		s.order = s.order[1:]
		if p, ok := s.procs[old]; ok {
			s.kill(p)
			delete(s.procs, old)
		}
	}
	bin := s.eng.B.Verif
	if s.useRace {
		bin = s.eng.B.NeedRace()
	}
	if bin == "" {
		return nil, errors.New("no tagged binary")
	}
	cmd := exec.Command(bin)
	cmd.Dir = dir
	cmd.Env = append(os.Environ(), "TI_VERIF_SERVE=1", "GOMAXPROCS=2", "TMPDIR="+s.root)
	if s.useRace {
		cmd.Env = append(cmd.Env, "GORACE=atexit_sleep_ms=0 halt_on_error=0 log_path="+filepath.Join(s.eng.RaceLogDir, "race"))
	}
	stdin, _ := cmd.StdinPipe()
	stdout, _ := cmd.StdoutPipe()
	stderr := &bytes.Buffer{}
	cmd.Stderr = stderr
	if err := cmd.Start(); err != nil {
		return nil, err
	}
	p := &serveProc{cmd: cmd, stdin: stdin, stdout: bufio.NewReaderSize(stdout, 1<<20), stderr: stderr, dir: dir, race: s.useRace}
	s.procs[h] = p
	s.order = append(s.order, h)
	return p, nil
}

type serveReq struct {
	ID        int      `json:"id"`
	Op        string   `json:"op"`
	Argv      []string `json:"argv,omitempty"`
	BudgetEOF int64    `json:"budget_eof"`
	BudgetTok int64    `json:"budget_tok"`
	Dump      bool     `json:"dump,omitempty"`
	Texts     []string `json:"texts,omitempty"`
}

type LexResult struct {
	Advances  int64  `json:"advances"`
	Ended     bool   `json:"ended"`
	Pos       int    `json:"pos"`
	Len       int    `json:"len"`
	Pending   bool   `json:"pending"`
	Budget    string `json:"budget,omitempty"`
	Panic     string `json:"panic,omitempty"`
	Reads     int64  `json:"reads"`
	ReadError string `json:"read_error,omitempty"`
	ReadPos   int    `json:"read_pos"`
	RBudget   string `json:"rbudget,omitempty"`
	RPanic    string `json:"rpanic,omitempty"`
	Stack     string `json:"stack,omitempty"`
}

type serveResp struct {
	ID        int         `json:"id"`
	Stdout    string      `json:"stdout"`
	StdoutB64 string      `json:"stdout_b64"`
	Exit      int         `json:"exit"`
	Exited    bool        `json:"exited"`
	Panic     string      `json:"panic"`
	Stack     string      `json:"stack"`
	Budget    string      `json:"budget"`
	Tokens    int64       `json:"tokens"`
	EOFReads  int64       `json:"eof_reads"`
	Walks     int64       `json:"walks"`
	DumpDiff  []DumpDiff  `json:"dump_diff"`
	DumpSize  int         `json:"dump_size"`
	Lex       []LexResult `json:"lex"`
	WallUs    int64       `json:"wall_us"`
}

const inprocWall = 12 * time.Second

// roundTrip sends one request; on worker death or stall returns an error
// after killing the worker.
func (s *Slot) roundTrip(p *serveProc, h string, req *serveReq) (*serveResp, error) {
	p.nextID++
	req.ID = p.nextID
	data, _ := json.Marshal(req)
	data = append(data, '\n')
	type rr struct {
		resp *serveResp
		err  error
	}
	ch := make(chan rr, 1)
	go func() {
		if _, err := p.stdin.Write(data); err != nil {
			ch <- rr{nil, err}
			return
		}
		line, err := p.stdout.ReadBytes('\n')
		if err != nil {
			ch <- rr{nil, err}
			return
		}
		var resp serveResp
		if err := json.Unmarshal(line, &resp); err != nil {
			ch <- rr{nil, fmt.Errorf("bad response: %v", err)}
			return
		}
		ch <- rr{&resp, nil}
	}()
	wall := inprocWall
	if req.Op == "lex" {
		wall = 120 * time.Second
	}
	select {
	case r := <-ch:
		if r.err != nil {
			s.kill(p)
			delete(s.procs, h)
			msg := p.stderr.String()
			if len(msg) > 6000 {
				msg = msg[:3000] + "\n...\n" + msg[len(msg)-3000:]
			}
			return nil, fmt.Errorf("worker died: %v\n%s", r.err, msg)
		}
		return r.resp, nil
	case <-time.After(wall):
		s.kill(p)
		delete(s.procs, h)
		return nil, errStall
	}
}

var errStall = errors.New("worker stalled (harness wall clock)")

// Budgets of the logical watchdog (DESIGN 3.3): far above anything a
// legitimate analysis needs (measured maxima are reported in evidence).
func budgets(e *Exec) (int64, int64) {
	n := int64(0)
	for _, c := range e.Files {
		n += int64(len(c))
	}
	return 5000 + 50*n, 20000 + 400*n
}

// InProc is the in-process explorer.
type InProc struct{ s *Slot }

func (s *Slot) InProc() Runner { return &InProc{s} }
func (r *InProc) IsBlackBox() bool { return false }

func (r *InProc) Run(e *Exec) *Result {
	s := r.s
	if s.eng.B.Degraded {
		return (&BlackBox{s}).Run(e)
	}
	s.eng.pause.RLock()
	defer s.eng.pause.RUnlock()
	dir := s.prepare(e)
	cfg := e.Config
	if cfg == nil {
		cfg = ShippedConfig()
	}
	p, err := s.procFor(cfg, dir)
	if err != nil {
		fatalf("cannot start serve worker: %v", err)
	}
	be, bt := budgets(e)
	req := &serveReq{Op: "run", Argv: append([]string{"ti"}, e.Argv...), BudgetEOF: be, BudgetTok: bt, Dump: e.Dump}
	s.eng.InprocRuns.Add(1)
	resp, err := s.roundTrip(p, cfg.Hash(), req)
	if err != nil {
		s.eng.WorkerDeaths.Add(1)
		res := &Result{Died: true, DiedMsg: err.Error()}
		if err == errStall {
			res.Watchdog = true
		}
		return res
	}
	out := resp.Stdout
	if resp.StdoutB64 != "" {
		raw, _ := base64.StdEncoding.DecodeString(resp.StdoutB64)
		out = string(raw)
	}
	res := &Result{Stdout: out, Exit: resp.Exit, Panic: resp.Panic, Stack: resp.Stack, Budget: resp.Budget,
		Tokens: resp.Tokens, EOFReads: resp.EOFReads, Walks: resp.Walks, DumpDiff: resp.DumpDiff, DumpSize: resp.DumpSize, WallUs: resp.WallUs}
	if res.Normal() {
		atomicMax(&s.eng.MaxTokens, res.Tokens)
		atomicMax(&s.eng.MaxEOF, res.EOFReads)
		atomicMax(&s.eng.MaxWalks, res.Walks)
		n := int64(0)
		for _, c := range e.Files {
			n += int64(len(c))
		}
		if n > 0 {
			atomicMax(&s.eng.MaxTokPerRune, res.Tokens*1000/n)
		}
	}
	return res
}

func atomicMax(a *atomic.Int64, v int64) {
	for {
		cur := a.Load()
		if v <= cur || a.CompareAndSwap(cur, v) {
			return
		}
	}
}

// Lex runs the lexer probe over a batch of texts.
func (s *Slot) Lex(texts []string, budgetEOF, budgetTok int64) ([]LexResult, error) {
	if s.eng.B.Degraded {
		return nil, errors.New("degraded")
	}
	dir := s.dirFor(nil)
	p, err := s.procFor(nil, dir)
	if err != nil {
		return nil, err
	}
	req := &serveReq{Op: "lex", BudgetEOF: budgetEOF, BudgetTok: budgetTok}
	for _, t := range texts {
		req.Texts = append(req.Texts, base64.StdEncoding.EncodeToString([]byte(t)))
	}
	resp, err := s.roundTrip(p, ShippedConfig().Hash(), req)
	if err != nil {
		return nil, err
	}
	return resp.Lex, nil
}

// BlackBox is the judge: the plain binary in a fresh process.
type BlackBox struct{ s *Slot }

func (s *Slot) BlackBox() Runner { return &BlackBox{s} }
func (r *BlackBox) IsBlackBox() bool { return true }

const blackboxWall = 20 * time.Second

func (r *BlackBox) Run(e *Exec) *Result {
	s := r.s
	dir := s.prepare(e)
	return runBinary(s.eng, s.eng.B.Plain, dir, e.Argv, e.Env)
}

func runBinary(eng *Engine, bin, dir string, argv []string, env []string) *Result {
	ctx, cancel := context.WithTimeout(context.Background(), blackboxWall)
	defer cancel()
	cmd := exec.CommandContext(ctx, bin, argv...)
	cmd.Dir = dir
	cmd.Env = append(os.Environ(), env...)
	var so, se bytes.Buffer
	cmd.Stdout = &so
	cmd.Stderr = &se
	start := time.Now()
	err := cmd.Run()
	if eng != nil {
		eng.BlackboxRuns.Add(1)
	}
	res := &Result{Stdout: so.String(), Stderr: se.String(), BlackBox: true, WallUs: time.Since(start).Microseconds()}
	if len(res.Stderr) > 20000 {
		res.Stderr = res.Stderr[:10000] + "\n...\n" + res.Stderr[len(res.Stderr)-10000:]
	}
	if ctx.Err() != nil {
		res.Watchdog = true
		res.Exit = -1
		return res
	}
	if err != nil {
		var ee *exec.ExitError
		if errors.As(err, &ee) {
			res.Exit = ee.ExitCode()
			if ws, ok := ee.Sys().(syscall.WaitStatus); ok && ws.Signaled() {
				res.Exit = -int(ws.Signal())
			}
		} else {
			res.Exit = -1
			res.Stderr += "\nexec error: " + err.Error()
		}
	}
	return res
}

// Quiet runs fn while every in-process worker is paused (idle-core reruns
// for C02 confirmations).
func (e *Engine) Quiet(fn func()) {
	e.pause.Lock()
	defer e.pause.Unlock()
	fn()
}

// ConfirmTimeout: 3 of 3 serial black-box reruns print `timeout`.
func (s *Slot) ConfirmTimeout(e *Exec) (bool, *Result) {
	var last *Result
	ok := true
	dir := s.prepare(e)
	s.eng.Quiet(func() {
		for i := 0; i < 3; i++ {
			last = runBinary(s.eng, s.eng.B.Plain, dir, e.Argv, e.Env)
			if !last.Timeout() {
				ok = false
				return
			}
		}
	})
	return ok, last
}
