package main

import (
	"encoding/json"
	"fmt"
	"strings"
)

// ---------------------------------------------------------------------------
// C27: same-named classes in different namespaces do not interfere

type nsClass struct {
	Name    string   `json:"name"`
	Parent  string   `json:"parent,omitempty"` // short name of a class of the group
	Methods []string `json:"methods"`          // "name:body expression"
	Static  []string `json:"static,omitempty"`
	Inner   *nsClass `json:"inner,omitempty"` // a class nested in this one (its parent is a class of the group)
	// Rest: the class has `def entry(*args)` returning args (called from outside with typed arguments)
	Rest bool `json:"rest,omitempty"`
}

type nsCase struct {
	Classes []nsClass `json:"classes"`
	Uses    []string  `json:"uses"` // statements after the group; class references written as {{Name}}
	Modules []string  `json:"modules"`
	Decoy   string    `json:"decoy"` // "", "toplevel", "other-module"
	Mode    []string  `json:"mode"`
	Feature string    `json:"feature"`
}

func (n *nsCase) render(wrap bool, decoy bool) (src string, groupLines int) {
	var sb strings.Builder
	if decoy {
		switch n.Decoy {
		case "toplevel":
			// only meaningful when the group is wrapped
			if wrap {
				for _, cl := range n.Classes {
					fmt.Fprintf(&sb, "class %s\n  def zzdecoy\n    1.5\n  end\n", cl.Name)
					for _, m := range cl.Methods {
						fmt.Fprintf(&sb, "  def %s\n    \"zzdecoy\"\n  end\n", strings.SplitN(m, ":", 2)[0])
					}
					if cl.Rest {
						sb.WriteString("  def entry(*args)\n    args\n  end\n")
					}
					sb.WriteString("end\n")
					if cl.Rest {
						// the decoy is used too: its calls must not reach the group's class
						fmt.Fprintf(&sb, "zzd = %s.new\nzzd.entry(:decoy, :other)\n", cl.Name)
					}
				}
			}
		case "other-module":
			fmt.Fprintf(&sb, "module Zzother\n  class %s < String\n    def zzdecoy\n      1.5\n    end\n  end\nend\n", n.Classes[len(n.Classes)-1].Name)
		}
	}
	groupLines = strings.Count(sb.String(), "\n") // rows of the decoy in front of the group
	ind := ""
	if wrap {
		for i, m := range n.Modules {
			fmt.Fprintf(&sb, "%smodule %s\n", strings.Repeat("  ", i), m)
		}
		ind = strings.Repeat("  ", len(n.Modules))
	}
	for _, cl := range n.Classes {
		head := "class " + cl.Name
		if cl.Parent != "" {
			head += " < " + cl.Parent
		}
		fmt.Fprintf(&sb, "%s%s\n", ind, head)
		for _, m := range cl.Methods {
			p := strings.SplitN(m, ":", 2)
			fmt.Fprintf(&sb, "%s  def %s\n%s    %s\n%s  end\n", ind, p[0], ind, p[1], ind)
		}
		for _, m := range cl.Static {
			p := strings.SplitN(m, ":", 2)
			fmt.Fprintf(&sb, "%s  def self.%s\n%s    %s\n%s  end\n", ind, p[0], ind, p[1], ind)
		}
		if cl.Rest {
			fmt.Fprintf(&sb, "%s  def entry(*args)\n%s    args\n%s  end\n", ind, ind, ind)
		}
		if in := cl.Inner; in != nil {
			head := "class " + in.Name
			if in.Parent != "" {
				head += " < " + in.Parent
			}
			fmt.Fprintf(&sb, "%s  %s\n", ind, head)
			for _, m := range in.Methods {
				p := strings.SplitN(m, ":", 2)
				fmt.Fprintf(&sb, "%s    def %s\n%s      %s\n%s    end\n", ind, p[0], ind, p[1], ind)
			}
			fmt.Fprintf(&sb, "%s  end\n", ind)
		}
		fmt.Fprintf(&sb, "%send\n", ind)
	}
	if wrap {
		for i := len(n.Modules) - 1; i >= 0; i-- {
			fmt.Fprintf(&sb, "%send\n", strings.Repeat("  ", i))
		}
	}
	q := ""
	if wrap {
		q = strings.Join(n.Modules, "::") + "::"
	}
	for _, u := range n.Uses {
		line := u
		for _, cl := range n.Classes {
			line = strings.ReplaceAll(line, "{{"+cl.Name+"}}", q+cl.Name)
		}
		sb.WriteString(line + "\n")
	}
	return sb.String(), groupLines
}

// normalise removes namespace qualifiers of the group and rebases rows onto
// "use statement index" so that renderings with different preambles compare.
func (n *nsCase) normalise(out string, src string, decoyRows int) []string {
	lines := strings.Split(src, "\n")
	// first use line = total - len(uses) - 1 (trailing empty)
	firstUse := len(lines) - 1 - len(n.Uses)
	q := strings.Join(n.Modules, "::") + "::"
	var res []string
	for _, r := range parseOut(out) {
		if r.Row > 0 && r.Row <= decoyRows {
			continue // the decoy's own records
		}
		msg := strings.ReplaceAll(r.Msg, q, "")
		for i := range n.Modules {
			msg = strings.ReplaceAll(msg, strings.Join(n.Modules[i:], "::")+"::", "")
		}
		switch {
		case r.Row < 0:
			res = append(res, "raw "+strings.ReplaceAll(r.Raw, q, ""))
		case r.Row > firstUse:
			p := ""
			if r.Hint {
				p = "@"
			}
			res = append(res, fmt.Sprintf("%suse%d:::%s", p, r.Row-firstUse, msg))
		default:
			// inside the group: identify by the text of the line (indentation ignored)
			p := ""
			if r.Hint {
				p = "@"
			}
			text := ""
			if r.Row-1 < len(lines) {
				text = strings.TrimSpace(lines[r.Row-1])
			}
			res = append(res, fmt.Sprintf("%sgroup[%s]:::%s", p, text, msg))
		}
	}
	return res
}

func judgeNs(c *CheckCtx, rn Runner, n *nsCase) *Violation {
	argv := append([]string{targetFile}, n.Mode...)
	type variant struct {
		name  string
		wrap  bool
		decoy bool
	}
	base := variant{"top-level", false, false}
	others := []variant{{"wrapped", true, false}}
	if n.Decoy != "" {
		others = append(others, variant{"wrapped+decoy", true, true})
		if n.Decoy == "other-module" {
			others = append(others, variant{"top-level+decoy", false, true})
		}
	}
	bsrc, _ := n.render(base.wrap, base.decoy)
	bo, ok := relRun(c, rn, &Exec{Files: map[string]string{targetFile: bsrc}, Argv: argv})
	if !ok {
		c.Event("skipped_crash_or_hang", 1)
		return nil
	}
	want := n.normalise(bo, bsrc, 0)
	if len(want) > 0 {
		c.Event("groups_with_output", 1)
		c.Nontrivial(strings.Join(n.Mode, " ") + "\x00" + bsrc + "\x00" + n.Decoy + strings.Join(n.Modules, "::"))
	}
	for _, v := range others {
		src, decoyRows := n.render(v.wrap, v.decoy)
		o, ok := relRun(c, rn, &Exec{Files: map[string]string{targetFile: src}, Argv: argv})
		if !ok {
			c.Event("skipped_crash_or_hang", 1)
			continue
		}
		got := n.normalise(o, src, decoyRows)
		// the decoy's own rows are not part of the group's output
		if v.decoy {
			got = filterDecoy(got)
		}
		if strings.Join(want, "\n") != strings.Join(got, "\n") {
			d := firstListDiff(want, got)
			return &Violation{Sig: "namespace:" + v.name + ":" + n.Feature + ":" + d, Kind: "ns", Case: mustJSON(n),
				What:     fmt.Sprintf("class group analysed %s differs from the top-level analysis (argv %v, modules %v, decoy %q)", v.name, n.Mode, n.Modules, n.Decoy),
				Expected: clip(strings.Join(want, "\n"), 3000), Observed: clip(strings.Join(got, "\n"), 3000)}
		}
	}
	// --extends for every class of the group
	for _, cl := range n.Classes {
		src0, _ := n.render(false, false)
		src1, _ := n.render(true, false)
		e0, ok0 := relRun(c, rn, &Exec{Files: map[string]string{targetFile: src0}, Argv: []string{targetFile, "--extends", "--class=" + cl.Name}})
		e1, ok1 := relRun(c, rn, &Exec{Files: map[string]string{targetFile: src1}, Argv: []string{targetFile, "--extends", "--class=" + strings.Join(n.Modules, "::") + "::" + cl.Name}})
		if !ok0 || !ok1 {
			continue
		}
		c.Event("extends_compared", 1)
		q := strings.Join(n.Modules, "::") + "::"
		if strings.ReplaceAll(e1, q, "") != e0 {
			return &Violation{Sig: "namespace:extends:" + n.Feature + ":" + msgTemplate(firstDiffLine(e0, strings.ReplaceAll(e1, q, ""))), Kind: "ns", Case: mustJSON(n),
				What:     fmt.Sprintf("--extends --class=%s differs between the top-level and the wrapped rendering", cl.Name),
				Expected: clip(e0, 2000), Observed: clip(e1, 2000)}
		}
	}
	return nil
}

func filterDecoy(got []string) []string {
	var f []string
	for _, g := range got {
		if strings.Contains(g, "zzdecoy") || strings.Contains(g, "Zzother") || strings.Contains(g, "group[1.5]") {
			continue
		}
		f = append(f, g)
	}
	return f
}

func firstDiffLine(a, b string) string {
	al, bl := strings.Split(a, "\n"), strings.Split(b, "\n")
	for i := 0; i < len(al) || i < len(bl); i++ {
		var x, y string
		if i < len(al) {
			x = al[i]
		}
		if i < len(bl) {
			y = bl[i]
		}
		if x != y {
			return x + " => " + y
		}
	}
	return ""
}

func firstListDiff(want, got []string) string {
	for i := 0; i < len(want) || i < len(got); i++ {
		var w, g string
		if i < len(want) {
			w = want[i]
		}
		if i < len(got) {
			g = got[i]
		}
		if w != g {
			wm, gm := w, g
			if k := strings.Index(w, ":::"); k >= 0 {
				wm = w[k+3:]
			}
			if k := strings.Index(g, ":::"); k >= 0 {
				gm = g[k+3:]
			}
			return msgTemplate(wm) + " => " + msgTemplate(gm)
		}
	}
	return ""
}

func genNsCase(r *RNG) *nsCase {
	pool := []string{"Animal", "Dog", "Puppy", "Widget", "Gadget", "Engine", "Motor", "Base", "Table", "Error", "Relation", "Node", "Leaf"}
	Shuffle(r, pool)
	nc := 2 + r.Intn(3)
	n := &nsCase{Modules: []string{Pick(r, []string{"Zoo", "Outer", "Lib"})}}
	if r.Chance(1, 3) {
		n.Modules = append(n.Modules, Pick(r, []string{"Inner", "Core"}))
	}
	rets := []string{"1", "\"s\"", "1.5", ":sym", "nil", "[1]"}
	feature := []string{}
	for i := 0; i < nc; i++ {
		cl := nsClass{Name: pool[i]}
		if i > 0 && r.Chance(2, 3) {
			cl.Parent = pool[r.Intn(i)]
			feature = append(feature, "inherit")
		}
		nm := 1 + r.Intn(2)
		for k := 0; k < nm; k++ {
			cl.Methods = append(cl.Methods, fmt.Sprintf("m%d_%d:%s", i, k, Pick(r, rets)))
		}
		// every class of the group answers `common`, each with another class
		cl.Methods = append(cl.Methods, fmt.Sprintf("common:%s", rets[i%len(rets)]))
		if i == 0 && r.Bool() {
			cl.Rest = true
			feature = append(feature, "rest-parameter")
			// ... also called without a receiver from inside the class
			cl.Methods = append(cl.Methods, "via_entry:entry(:a, :b)")
		}
		if r.Chance(1, 3) {
			cl.Static = append(cl.Static, fmt.Sprintf("s%d:%s", i, Pick(r, rets)))
			feature = append(feature, "static")
		}
		// a method whose body names a sibling class of the group by its short name
		if i > 0 && r.Chance(1, 2) {
			sib := pool[r.Intn(i)]
			cl.Methods = append(cl.Methods, fmt.Sprintf("friend%d:%s.new", i, sib))
			if r.Bool() {
				cl.Static = append(cl.Static, fmt.Sprintf("make%d:%s.new", i, Pick(r, []string{sib, cl.Name})))
			}
			feature = append(feature, "sibling-reference")
		}
		// a class nested in this class that inherits from a sibling of the group
		if i > 0 && r.Chance(1, 3) {
			cl.Inner = &nsClass{Name: "Inner" + cl.Name, Parent: pool[r.Intn(i)], Methods: []string{fmt.Sprintf("im%d:%s", i, Pick(r, rets))}}
			feature = append(feature, "nested-class")
		}
		n.Classes = append(n.Classes, cl)
	}
	// uses: instances, calls of own and inherited methods, one undefined call
	for i, cl := range n.Classes {
		v := fmt.Sprintf("v%d", i)
		n.Uses = append(n.Uses, fmt.Sprintf("%s = {{%s}}.new", v, cl.Name))
		n.Uses = append(n.Uses, "dbtp "+v)
		for _, m := range cl.Methods {
			n.Uses = append(n.Uses, fmt.Sprintf("dbtp %s.%s", v, strings.SplitN(m, ":", 2)[0]))
		}
		// inherited
		for p := cl.Parent; p != ""; {
			var pc *nsClass
			for k := range n.Classes {
				if n.Classes[k].Name == p {
					pc = &n.Classes[k]
				}
			}
			if pc == nil {
				break
			}
			n.Uses = append(n.Uses, fmt.Sprintf("dbtp %s.%s", v, strings.SplitN(pc.Methods[0], ":", 2)[0]))
			p = pc.Parent
		}
		for _, m := range cl.Static {
			n.Uses = append(n.Uses, fmt.Sprintf("dbtp {{%s}}.%s", cl.Name, strings.SplitN(m, ":", 2)[0]))
		}
		// what a sibling reference returns must be the group's class: call its first method
		for _, m := range append(append([]string{}, cl.Methods...), cl.Static...) {
			p := strings.SplitN(m, ":", 2)
			if !strings.HasSuffix(p[1], ".new") {
				continue
			}
			target := strings.TrimSuffix(p[1], ".new")
			for k := range n.Classes {
				if n.Classes[k].Name == target && len(n.Classes[k].Methods) > 0 {
					recv := v
					if strings.HasPrefix(p[0], "make") {
						recv = "{{" + cl.Name + "}}"
					}
					n.Uses = append(n.Uses, fmt.Sprintf("dbtp %s.%s.%s", recv, p[0], strings.SplitN(n.Classes[k].Methods[0], ":", 2)[0]))
				}
			}
		}
		if in := cl.Inner; in != nil {
			iv := fmt.Sprintf("iv%d", i)
			n.Uses = append(n.Uses, fmt.Sprintf("%s = {{%s}}::%s.new", iv, cl.Name, in.Name))
			n.Uses = append(n.Uses, fmt.Sprintf("dbtp %s.%s", iv, strings.SplitN(in.Methods[0], ":", 2)[0]))
			for k := range n.Classes {
				if n.Classes[k].Name == in.Parent && len(n.Classes[k].Methods) > 0 {
					n.Uses = append(n.Uses, fmt.Sprintf("dbtp %s.%s", iv, strings.SplitN(n.Classes[k].Methods[0], ":", 2)[0]))
				}
			}
		}
		n.Uses = append(n.Uses, v+".zznothing")
	}
	// a receiver that is a union of two classes of the group
	n.Uses = append(n.Uses, "zzflag = true", fmt.Sprintf("zzu = zzflag ? {{%s}}.new : {{%s}}.new", n.Classes[0].Name, n.Classes[1].Name), "dbtp zzu.common", "zzu.zznothing")
	if n.Classes[0].Rest {
		n.Uses = append(n.Uses, "dbtp v0.entry(1.5, 2.5)", "dbtp v0.entry(\"s\")", "zzfirst = v0.entry(1.5).first", "dbtp zzfirst")
	}
	switch r.Intn(3) {
	case 1:
		n.Decoy = "toplevel"
	case 2:
		n.Decoy = "other-module"
	}
	for _, cl := range n.Classes {
		switch cl.Name {
		case "Base", "Table", "Error", "Relation":
			feature = append(feature, "configured-short-name")
		}
	}
	if len(n.Modules) > 1 {
		feature = append(feature, "two-modules")
	}
	if len(feature) == 0 {
		feature = []string{"plain"}
	}
	fs := dedupSorted(feature)
	n.Feature = strings.Join(fs, "+")
	return n
}

func dedupSorted(xs []string) []string {
	m := map[string]bool{}
	var out []string
	for _, x := range xs {
		if !m[x] {
			m[x] = true
			out = append(out, x)
		}
	}
	// stable order
	for i := 0; i < len(out); i++ {
		for j := i + 1; j < len(out); j++ {
			if out[j] < out[i] {
				out[i], out[j] = out[j], out[i]
			}
		}
	}
	return out
}

func init() {
	register(&Check{ID: "C27", Title: "same-named classes in different namespaces do not interfere",
		Replay: func(c *CheckCtx, s *Slot, v *Violation) *Violation {
			var n nsCase
			if json.Unmarshal(v.Case, &n) != nil {
				return nil
			}
			return judgeNs(c, s.BlackBox(), &n)
		},
		Run: func(c *CheckCtx) {
			c.rule = "generated class groups (2-4 classes, superclasses inside the group, instance and class methods; names drawn to collide and not collide with configured short names) followed by uses (new, own/inherited/class method calls probed with dbtp, one undefined call per class, a call on a union of two classes of the group that both define the method, calls of a rest-parameter method with typed arguments); each group is analysed at top level, wrapped in one or two modules with outside references qualified, and next to a same-named decoy class (top level or another module) with different methods and parents; outputs are compared after removing the group's qualifiers and rebasing rows onto use-statement indexes; --extends --class= is compared for every class. distinct_nontrivial = distinct (group, modules, decoy, mode) whose top-level run printed records"
			c.assumptions = []string{"variants in which a run crashes or hangs are skipped (C01/C02)"}
			r := c.RNG.Sub(27)
			n := c.N(250, 6000)
			jobs := make([]*nsCase, n)
			for i := range jobs {
				jobs[i] = genNsCase(r)
				jobs[i].Mode = Pick(r, [][]string{{}, {"-i"}})
			}
			c.Eng.Map(n, func(s *Slot, i int) {
				nc := jobs[i]
				if i%101 == 0 {
					src, _ := nc.render(true, true)
					c.Sample(map[string]any{"wrapped_with_decoy": src, "mode": nc.Mode, "feature": nc.Feature})
				}
				if v := exploreThenJudge(c, s, func(rn Runner) *Violation { return judgeNs(c, rn, nc) }); v != nil {
					c.Report(v)
				}
			})
		}})
}
