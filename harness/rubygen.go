package main

import (
	"fmt"
	"sort"
	"strings"
)

// ---------------------------------------------------------------------------
// RubyGen: grammar-directed generator over the Ruby subset ti analyses.
//
// A program is a tree of nodes. Every node renders to whole lines, so every
// statement boundary (at any nesting level) is a line boundary the relational
// checks can use. Identifiers the program defines are written as placeholders
// (\x01kind:id\x02) and substituted at render time, which gives consistent
// renaming for free.

type Node struct {
	Kind   string     // assign, call, probe, if, while, case, block, def, class, module, return, raw
	Head   string     // first line (placeholders allowed); may contain "\n" for multi-line heads
	Bodies [][]*Node  // nested bodies
	Seps   []string   // lines between bodies (len(Bodies)-1): "else", "elsif ...", "when ..."
	Tail   string     // closing line ("end", "}") or ""
	Feat   []string   // features (for signatures)
	Meta   map[string]string
}

type Program struct {
	Nodes []*Node
	Names map[string]string // placeholder id -> default concrete name
	Kinds map[string]string // placeholder id -> lexical category: local, method, class, const
}

func ph(id string) string { return "\x01" + id + "\x02" }

// RenderedLine carries, for each output line, the path of the statement that
// starts there (empty when the line continues or closes a statement).
type RenderedLine struct {
	Text      string
	StartsAt  string // node path "0.1.2" when a statement starts on this line
	BodyEnd   string // body path when this line closes/separates a body ("else"/"end")
	Depth     int
	InLiteral bool
}

type Rendered struct {
	Lines []RenderedLine
}

func (rd *Rendered) Text() string {
	var sb strings.Builder
	for _, l := range rd.Lines {
		sb.WriteString(l.Text)
		sb.WriteString("\n")
	}
	return sb.String()
}

func substNames(s string, naming map[string]string) string {
	if !strings.Contains(s, "\x01") {
		return s
	}
	var sb strings.Builder
	for {
		i := strings.IndexByte(s, 1)
		if i < 0 {
			sb.WriteString(s)
			break
		}
		j := strings.IndexByte(s[i:], 2)
		if j < 0 {
			sb.WriteString(s)
			break
		}
		sb.WriteString(s[:i])
		id := s[i+1 : i+j]
		if n, ok := naming[id]; ok {
			sb.WriteString(n)
		} else {
			sb.WriteString(id)
		}
		s = s[i+j+1:]
	}
	return sb.String()
}

// Render flattens the tree; naming overrides default names (nil = defaults).
func (p *Program) Render(naming map[string]string) *Rendered {
	full := map[string]string{}
	for k, v := range p.Names {
		full[k] = v
	}
	for k, v := range naming {
		full[k] = v
	}
	rd := &Rendered{}
	renderNodes(rd, p.Nodes, "", 0, full)
	return rd
}

func renderNodes(rd *Rendered, nodes []*Node, prefix string, depth int, naming map[string]string) {
	ind := strings.Repeat("  ", depth)
	for i, n := range nodes {
		path := fmt.Sprintf("%s%d", prefix, i)
		headLines := strings.Split(substNames(n.Head, naming), "\n")
		for k, hl := range headLines {
			rl := RenderedLine{Text: ind + hl, Depth: depth}
			if k == 0 {
				rl.StartsAt = path
			} else {
				rl.InLiteral = true
				rl.Text = hl // continuation lines are kept verbatim (multi-line literals)
				if !strings.HasPrefix(n.Kind, "ml-string") {
					rl.Text = ind + hl
				}
			}
			rd.Lines = append(rd.Lines, rl)
		}
		for b, body := range n.Bodies {
			renderNodes(rd, body, fmt.Sprintf("%s.%d.", path, b), depth+1, naming)
			if b < len(n.Seps) {
				rd.Lines = append(rd.Lines, RenderedLine{Text: ind + substNames(n.Seps[b], naming), BodyEnd: fmt.Sprintf("%s.%d", path, b), Depth: depth})
			}
		}
		if n.Tail != "" {
			be := ""
			if len(n.Bodies) > 0 {
				be = fmt.Sprintf("%s.%d", path, len(n.Bodies)-1)
			}
			rd.Lines = append(rd.Lines, RenderedLine{Text: ind + substNames(n.Tail, naming), BodyEnd: be, Depth: depth})
		}
	}
}

// ---------------------------------------------------------------------------
// abstract types used to keep generated code mostly well typed

type Ty struct {
	Atoms []string // sorted class names; "Array"/"Hash"/"Range" are atoms too
	Elem  []string // element classes when Atoms == ["Array"]
}

func ty(atoms ...string) Ty {
	a := append([]string{}, atoms...)
	sort.Strings(a)
	return Ty{Atoms: dedup(a)}
}

func arrayOf(elem ...string) Ty {
	e := append([]string{}, elem...)
	sort.Strings(e)
	return Ty{Atoms: []string{"Array"}, Elem: dedup(e)}
}

func dedup(a []string) []string {
	var out []string
	for i, x := range a {
		if i == 0 || x != a[i-1] {
			out = append(out, x)
		}
	}
	return out
}

func (t Ty) Is(atom string) bool   { return len(t.Atoms) == 1 && t.Atoms[0] == atom }
func (t Ty) IsUnion() bool         { return len(t.Atoms) > 1 }
func (t Ty) Has(atom string) bool  { return contains(t.Atoms, atom) }
func (t Ty) Unknown() bool         { return len(t.Atoms) == 0 }
func contains(xs []string, x string) bool {
	for _, y := range xs {
		if y == x {
			return true
		}
	}
	return false
}

func unionTy(a, b Ty) Ty {
	return ty(append(append([]string{}, a.Atoms...), b.Atoms...)...)
}

type genVar struct {
	id string
	ty Ty
}

type genMethod struct {
	id      string
	class   string // placeholder id of the class or ""
	static  bool
	params  int
	kwargs  []string
	ret     Ty
	private bool
}

type GenOpts struct {
	MaxDepth    int
	Stmts       int
	Classes     bool
	Defs        bool
	NoErrors    bool   // avoid deliberately wrong calls
	Prefix      string // identifier prefix (fragments use a reserved one)
	NoDefs      bool
	MultiLine   bool // allow multi-line string literals / array literals
}

type Gen struct {
	r       *RNG
	p       *Program
	opts    GenOpts
	nv      int
	methods []*genMethod
	classes []string
}

func NewGen(r *RNG, opts GenOpts) *Gen {
	if opts.MaxDepth == 0 {
		opts.MaxDepth = 3
	}
	if opts.Stmts == 0 {
		opts.Stmts = 12
	}
	return &Gen{r: r, opts: opts, p: &Program{Names: map[string]string{}, Kinds: map[string]string{}}}
}

var localNames = []string{"alpha", "beta", "gamma", "delta", "count", "total", "name", "item", "value", "data", "list", "flag", "idx", "acc", "tmp", "res", "msg", "key", "val", "num"}
var methodNames = []string{"compute", "build", "render", "fetch", "update", "helper", "check", "convert", "process", "lookup", "format_it", "run_it"}
var classNames = []string{"Animal", "Dog", "Widget", "Parser", "Engine", "Account", "Shape", "Circle", "Robot", "Sensor", "Motor", "Board"}

func (g *Gen) newName(kind string) string {
	g.nv++
	id := fmt.Sprintf("%s:%d", kind, g.nv)
	var base string
	switch kind {
	case "local":
		base = Pick(g.r, localNames)
	case "method":
		base = Pick(g.r, methodNames)
	case "class":
		base = Pick(g.r, classNames)
	}
	name := g.opts.Prefix + base
	if kind == "class" {
		name = base
		if g.opts.Prefix != "" {
			name = strings.ToUpper(g.opts.Prefix[:1]) + g.opts.Prefix[1:] + base
		}
	}
	// make the default name unique
	taken := map[string]bool{}
	for _, v := range g.p.Names {
		taken[v] = true
	}
	cand := name
	for k := 2; taken[cand] || rubyReserved[cand]; k++ {
		cand = fmt.Sprintf("%s%d", name, k)
	}
	g.p.Names[id] = cand
	g.p.Kinds[id] = kind
	return id
}

var rubyReserved = map[string]bool{"name": false, "class": true, "def": true, "end": true, "if": true, "p": true, "puts": true, "key": false}

// ----- expressions

type scope struct {
	vars   []*genVar
	parent *scope
}

func (s *scope) all() []*genVar {
	var out []*genVar
	for c := s; c != nil; c = c.parent {
		out = append(out, c.vars...)
	}
	return out
}

func (s *scope) ofType(pred func(Ty) bool) []*genVar {
	var out []*genVar
	for _, v := range s.all() {
		if pred(v.ty) {
			out = append(out, v)
		}
	}
	return out
}

var scalarAtoms = []string{"Integer", "String", "Float", "Symbol", "NilClass", "Bool"}

func (g *Gen) literal(atom string) string {
	r := g.r
	switch atom {
	case "Integer":
		return fmt.Sprintf("%d", r.Intn(100))
	case "String":
		return fmt.Sprintf("%q", Pick(r, []string{"a", "hello", "x y", "ruby", "", "42"}))
	case "Float":
		return fmt.Sprintf("%d.%d", r.Intn(10), 1+r.Intn(9))
	case "Symbol":
		return ":" + Pick(r, []string{"ok", "err", "left", "right", "sym"})
	case "NilClass":
		return "nil"
	case "Bool":
		return Pick(r, []string{"true", "false"})
	}
	return "nil"
}

// expr returns an expression of (approximately) the wanted type.
func (g *Gen) exprOf(sc *scope, want string, depth int) string {
	r := g.r
	if vs := sc.ofType(func(t Ty) bool { return t.Is(want) }); len(vs) > 0 && r.Chance(1, 2) {
		return ph(Pick(r, vs).id)
	}
	if depth <= 0 || r.Chance(1, 2) {
		return g.literal(want)
	}
	switch want {
	case "Integer":
		switch r.Intn(5) {
		case 0:
			return g.exprOf(sc, "Integer", depth-1) + " " + Pick(r, []string{"+", "-", "*"}) + " " + g.exprOf(sc, "Integer", depth-1)
		case 1:
			return g.exprOf(sc, "String", depth-1) + ".length"
		case 2:
			return g.exprOf(sc, "String", depth-1) + ".to_i"
		case 3:
			return g.exprOf(sc, "Float", depth-1) + ".to_i"
		default:
			return g.exprOf(sc, "Integer", depth-1) + ".abs"
		}
	case "String":
		switch r.Intn(5) {
		case 0:
			return g.exprOf(sc, "String", depth-1) + " + " + g.exprOf(sc, "String", depth-1)
		case 1:
			return g.exprOf(sc, "Integer", depth-1) + ".to_s"
		case 2:
			return g.exprOf(sc, "String", depth-1) + "." + Pick(r, []string{"upcase", "downcase", "strip"})
		case 3:
			return g.exprOf(sc, "Symbol", depth-1) + ".to_s"
		default:
			return g.exprOf(sc, "String", depth-1) + " * " + g.exprOf(sc, "Integer", 0)
		}
	case "Float":
		switch r.Intn(3) {
		case 0:
			return g.exprOf(sc, "Integer", depth-1) + ".to_f"
		case 1:
			return g.exprOf(sc, "Float", depth-1) + " + " + g.exprOf(sc, "Integer", depth-1)
		default:
			return g.exprOf(sc, "String", depth-1) + ".to_f"
		}
	case "Bool":
		switch r.Intn(4) {
		case 0:
			return g.exprOf(sc, "Integer", depth-1) + " " + Pick(r, []string{"<", ">", "=="}) + " " + g.exprOf(sc, "Integer", depth-1)
		case 1:
			return g.exprOf(sc, "String", depth-1) + ".empty?"
		case 2:
			return g.exprOf(sc, "String", depth-1) + ".include?(" + g.exprOf(sc, "String", 0) + ")"
		default:
			return g.exprOf(sc, Pick(r, []string{"Integer", "String"}), depth-1) + ".nil?"
		}
	case "Symbol":
		return g.exprOf(sc, "String", depth-1) + ".to_sym"
	}
	return g.literal(want)
}

// anyExpr returns an expression and its abstract type.
func (g *Gen) anyExpr(sc *scope, depth int) (string, Ty) {
	r := g.r
	switch r.Intn(10) {
	case 0, 1, 2, 3:
		a := Pick(r, scalarAtoms[:5])
		return g.exprOf(sc, a, depth), ty(a)
	case 4: // union through a ternary
		a, b := Pick(r, scalarAtoms[:5]), Pick(r, scalarAtoms[:5])
		return g.exprOf(sc, "Bool", 1) + " ? " + g.literal(a) + " : " + g.literal(b), ty(a, b)
	case 5: // array literal
		a := Pick(r, scalarAtoms[:4])
		n := 1 + r.Intn(3)
		var parts []string
		elems := []string{}
		for i := 0; i < n; i++ {
			b := a
			if r.Chance(1, 4) {
				b = Pick(r, scalarAtoms[:4])
			}
			parts = append(parts, g.exprOf(sc, b, 1))
			elems = append(elems, b)
		}
		return "[" + strings.Join(parts, ", ") + "]", arrayOf(elems...)
	case 6: // hash literal
		return fmt.Sprintf("{%s: %s, %s: %s}", Pick(r, []string{"a", "k", "id"}), g.exprOf(sc, "Integer", 1), Pick(r, []string{"b", "v", "nm"}), g.exprOf(sc, "String", 1)), ty("Hash")
	case 7: // array derived
		if vs := sc.ofType(func(t Ty) bool { return t.Is("Array") }); len(vs) > 0 {
			v := Pick(r, vs)
			switch r.Intn(3) {
			case 0:
				return ph(v.id) + ".length", ty("Integer")
			case 1:
				return ph(v.id) + ".join(\",\")", ty("String")
			default:
				return ph(v.id) + ".empty?", ty("Bool")
			}
		}
		return g.exprOf(sc, "String", depth) + ".split(\",\")", arrayOf("String")
	case 8: // range
		return fmt.Sprintf("(%d..%d)", r.Intn(3), 3+r.Intn(5)), ty("Range")
	default: // user method call
		if len(g.methods) > 0 {
			m := Pick(r, g.methods)
			if m.class == "" && !m.private {
				return g.callText(sc, m), m.ret
			}
		}
		a := Pick(r, scalarAtoms[:3])
		return g.exprOf(sc, a, depth), ty(a)
	}
}

func (g *Gen) callText(sc *scope, m *genMethod) string {
	var args []string
	for i := 0; i < m.params; i++ {
		args = append(args, g.exprOf(sc, Pick(g.r, []string{"Integer", "String"}), 1))
	}
	for _, k := range m.kwargs {
		args = append(args, k+": "+g.exprOf(sc, "Integer", 0))
	}
	recv := ""
	if m.class != "" {
		if m.static {
			recv = ph(m.class) + "."
		} else {
			recv = ph(m.class) + ".new."
		}
	}
	return recv + ph(m.id) + "(" + strings.Join(args, ", ") + ")"
}

// ----- statements

func (g *Gen) stmts(sc *scope, n int, depth int, inDef bool) []*Node {
	var out []*Node
	// now and then a body is empty (an `else` with nothing in it, an empty block)
	if depth > 0 && g.r.Chance(1, 9) {
		return out
	}
	for i := 0; i < n; i++ {
		out = append(out, g.stmt(sc, depth, inDef)...)
	}
	return out
}

func (g *Gen) assign(sc *scope, depth int) *Node {
	e, t := g.anyExpr(sc, 2)
	var v *genVar
	if vs := sc.vars; len(vs) > 0 && g.r.Chance(1, 4) {
		v = Pick(g.r, vs) // reassignment
		v.ty = t
	} else {
		v = &genVar{id: g.newName("local"), ty: t}
		sc.vars = append(sc.vars, v)
	}
	return &Node{Kind: "assign", Head: ph(v.id) + " = " + e, Feat: []string{"assign"}}
}

func (g *Gen) probe(sc *scope) *Node {
	if vs := sc.all(); len(vs) > 0 {
		return &Node{Kind: "probe", Head: "dbtp " + ph(Pick(g.r, vs).id), Feat: []string{"probe"}}
	}
	return &Node{Kind: "probe", Head: "dbtp " + g.literal(Pick(g.r, scalarAtoms)), Feat: []string{"probe"}}
}

func (g *Gen) stmt(sc *scope, depth int, inDef bool) []*Node {
	r := g.r
	k := r.Intn(20)
	if depth >= g.opts.MaxDepth && k >= 9 && k <= 15 {
		k = r.Intn(9)
	}
	switch {
	case k < 6:
		n := g.assign(sc, depth)
		if r.Chance(1, 2) {
			return []*Node{n, g.probe(sc)}
		}
		return []*Node{n}
	case k < 8:
		return []*Node{g.probe(sc)}
	case k == 8: // a call statement, sometimes a definite error
		if !g.opts.NoErrors && r.Chance(1, 3) {
			vs := sc.ofType(func(t Ty) bool { return t.Is("Integer") || t.Is("String") })
			if len(vs) > 0 {
				return []*Node{{Kind: "call", Head: ph(Pick(r, vs).id) + "." + Pick(r, []string{"no_such_method", "zork", "frobnicate(1)"}), Feat: []string{"error-call"}}}
			}
		}
		e, _ := g.anyExpr(sc, 2)
		return []*Node{{Kind: "call", Head: "p(" + e + ")", Feat: []string{"call"}}}
	case k == 9 || k == 10: // if / unless
		cond := g.exprOf(sc, "Bool", 1)
		kw := "if"
		if r.Chance(1, 4) {
			kw = "unless"
		}
		// narrowing condition on a union variable when available
		if vs := sc.ofType(func(t Ty) bool { return t.IsUnion() }); len(vs) > 0 && r.Chance(2, 3) {
			v := Pick(r, vs)
			if v.ty.Has("NilClass") && r.Bool() {
				cond = ph(v.id) + ".nil?"
			} else {
				cond = ph(v.id) + ".is_a?(" + Pick(r, v.ty.Atoms) + ")"
			}
		}
		n := &Node{Kind: "if", Head: kw + " " + cond, Tail: "end", Feat: []string{kw}}
		n.Bodies = append(n.Bodies, g.stmts(&scope{parent: sc}, 1+r.Intn(3), depth+1, inDef))
		if r.Chance(1, 3) && kw == "if" {
			n.Seps = append(n.Seps, "elsif "+g.exprOf(sc, "Bool", 1))
			n.Bodies = append(n.Bodies, g.stmts(&scope{parent: sc}, 1+r.Intn(2), depth+1, inDef))
		}
		if r.Chance(1, 2) {
			n.Seps = append(n.Seps, "else")
			n.Bodies = append(n.Bodies, g.stmts(&scope{parent: sc}, 1+r.Intn(2), depth+1, inDef))
		}
		return []*Node{n}
	case k == 19 && depth < g.opts.MaxDepth: // conditional used as a value
		v := &genVar{id: g.newName("local"), ty: ty()}
		a, b := Pick(r, scalarAtoms[:4]), Pick(r, scalarAtoms[:4])
		n := &Node{Kind: "if-expr", Head: ph(v.id) + " = if " + g.exprOf(sc, "Bool", 1), Tail: "end", Feat: []string{"if-expr"}}
		n.Bodies = append(n.Bodies, []*Node{{Kind: "expr", Head: g.exprOf(sc, a, 1)}})
		n.Seps = append(n.Seps, "else")
		if r.Chance(1, 3) {
			n.Bodies = append(n.Bodies, []*Node{})
			v.ty = ty(a, "NilClass")
		} else {
			n.Bodies = append(n.Bodies, []*Node{{Kind: "expr", Head: g.exprOf(sc, b, 1)}})
			v.ty = ty(a, b)
		}
		sc.vars = append(sc.vars, v)
		return []*Node{n, {Kind: "probe", Head: "dbtp " + ph(v.id)}}
	case k == 11: // while
		v := &genVar{id: g.newName("local"), ty: ty("Integer")}
		sc.vars = append(sc.vars, v)
		init := &Node{Kind: "assign", Head: ph(v.id) + " = 0"}
		n := &Node{Kind: "while", Head: "while " + ph(v.id) + " < " + fmt.Sprintf("%d", 2+r.Intn(5)), Tail: "end", Feat: []string{"while"}}
		body := g.stmts(&scope{parent: sc}, 1+r.Intn(2), depth+1, inDef)
		body = append(body, &Node{Kind: "assign", Head: ph(v.id) + " = " + ph(v.id) + " + 1"})
		n.Bodies = [][]*Node{body}
		return []*Node{init, n}
	case k == 12 || k == 13: // block
		var recv string
		var elem Ty
		if vs := sc.ofType(func(t Ty) bool { return t.Is("Array") && len(t.Elem) > 0 }); len(vs) > 0 && r.Chance(2, 3) {
			v := Pick(r, vs)
			recv, elem = ph(v.id), ty(v.ty.Elem...)
		} else {
			a := Pick(r, scalarAtoms[:3])
			recv, elem = "["+g.literal(a)+", "+g.literal(a)+"]", ty(a)
		}
		bv := &genVar{id: g.newName("local"), ty: elem}
		inner := &scope{parent: sc, vars: []*genVar{bv}}
		n := &Node{Kind: "block", Head: recv + ".each do |" + ph(bv.id) + "|", Tail: "end", Feat: []string{"block-do"}}
		if r.Chance(1, 3) {
			n.Head = recv + ".each { |" + ph(bv.id) + "|"
			n.Tail = "}"
			n.Feat = []string{"block-brace"}
		}
		n.Bodies = [][]*Node{g.stmts(inner, 1+r.Intn(3), depth+1, inDef)}
		return []*Node{n}
	case k == 14: // case/when
		v := g.exprOf(sc, "Integer", 1)
		n := &Node{Kind: "case", Head: "case " + v, Tail: "end", Feat: []string{"case-when"}}
		n.Head += "\nwhen " + fmt.Sprintf("%d", r.Intn(5))
		n.Bodies = append(n.Bodies, g.stmts(&scope{parent: sc}, 1+r.Intn(2), depth+1, inDef))
		n.Seps = append(n.Seps, "when "+fmt.Sprintf("%d", 5+r.Intn(5)))
		n.Bodies = append(n.Bodies, g.stmts(&scope{parent: sc}, 1, depth+1, inDef))
		if r.Bool() {
			n.Seps = append(n.Seps, "else")
			n.Bodies = append(n.Bodies, g.stmts(&scope{parent: sc}, 1, depth+1, inDef))
		}
		return []*Node{n}
	case k == 15 && !inDef && !g.opts.NoDefs && depth == 0: // def
		return []*Node{g.def(sc, "", false, depth)}
	case k == 16 && !inDef && !g.opts.NoDefs && depth == 0 && g.opts.Classes: // class
		return g.class(sc)
	case k == 17 && g.opts.MultiLine: // multi-line string literal
		v := &genVar{id: g.newName("local"), ty: ty("String")}
		sc.vars = append(sc.vars, v)
		body := Pick(r, []string{"line one\nline two", "a\n\nb", "x\n  y\nz"})
		return []*Node{{Kind: "ml-string", Head: ph(v.id) + " = \"" + body + "\"", Feat: []string{"ml-string"}}}
	case k == 18: // hash lookup / index
		if vs := sc.ofType(func(t Ty) bool { return t.Is("Array") }); len(vs) > 0 {
			nv := &genVar{id: g.newName("local"), ty: ty()}
			sc.vars = append(sc.vars, nv)
			return []*Node{{Kind: "assign", Head: ph(nv.id) + " = " + ph(Pick(r, vs).id) + "[0]", Feat: []string{"index"}}}
		}
		return []*Node{g.assign(sc, depth)}
	default:
		if inDef && r.Chance(1, 4) {
			e, _ := g.anyExpr(sc, 1)
			return []*Node{{Kind: "return", Head: "return " + e + " if " + g.exprOf(sc, "Bool", 1), Feat: []string{"return"}}}
		}
		return []*Node{g.assign(sc, depth)}
	}
}

func (g *Gen) def(sc *scope, classID string, static bool, depth int) *Node {
	r := g.r
	m := &genMethod{id: g.newName("method"), class: classID, static: static, params: r.Intn(3)}
	inner := &scope{}
	var ps []string
	for i := 0; i < m.params; i++ {
		pv := &genVar{id: g.newName("local"), ty: ty(Pick(r, []string{"Integer", "String"}))}
		inner.vars = append(inner.vars, pv)
		ps = append(ps, ph(pv.id))
	}
	if r.Chance(1, 4) {
		kw := Pick(r, []string{"mode", "limit", "depth"})
		m.kwargs = append(m.kwargs, kw)
		inner.vars = append(inner.vars, &genVar{id: "kw:" + kw, ty: ty("Integer")})
		g.p.Names["kw:"+kw] = kw
		ps = append(ps, kw+": 1")
	}
	head := "def "
	if static {
		head += "self."
	}
	head += ph(m.id)
	if len(ps) > 0 {
		head += "(" + strings.Join(ps, ", ") + ")"
	}
	n := &Node{Kind: "def", Head: head, Tail: "end", Feat: []string{"def"}}
	body := g.stmts(inner, 1+r.Intn(3), depth+1, true)
	a := Pick(r, scalarAtoms[:4])
	if r.Chance(1, 4) {
		// the method's value is a conditional, sometimes with an empty else
		n2 := &Node{Kind: "if", Head: "if " + g.exprOf(inner, "Bool", 1), Tail: "end", Feat: []string{"if-result"}}
		n2.Bodies = append(n2.Bodies, []*Node{{Kind: "expr", Head: g.exprOf(inner, a, 1)}})
		n2.Seps = append(n2.Seps, "else")
		if r.Bool() {
			n2.Bodies = append(n2.Bodies, []*Node{})
		} else {
			n2.Bodies = append(n2.Bodies, []*Node{{Kind: "expr", Head: g.literal(a)}})
		}
		body = append(body, n2)
	} else {
		body = append(body, &Node{Kind: "expr", Head: g.exprOf(inner, a, 1), Feat: []string{"result"}})
	}
	m.ret = ty(a)
	n.Bodies = [][]*Node{body}
	g.methods = append(g.methods, m)
	return n
}

func (g *Gen) class(sc *scope) []*Node {
	r := g.r
	id := g.newName("class")
	head := "class " + ph(id)
	if len(g.classes) > 0 && r.Chance(1, 2) {
		head += " < " + ph(Pick(r, g.classes))
	}
	n := &Node{Kind: "class", Head: head, Tail: "end", Feat: []string{"class"}}
	var body []*Node
	if r.Chance(1, 3) {
		body = append(body, &Node{Kind: "raw", Head: "attr_accessor :" + Pick(r, []string{"size", "label", "speed"})})
	}
	if r.Chance(1, 2) {
		init := &Node{Kind: "def", Head: "def initialize", Tail: "end"}
		init.Bodies = [][]*Node{{{Kind: "assign", Head: "@" + Pick(r, []string{"state", "level"}) + " = " + g.literal(Pick(r, scalarAtoms[:3]))}}}
		body = append(body, init)
	}
	nm := 1 + r.Intn(3)
	for i := 0; i < nm; i++ {
		body = append(body, g.def(sc, id, r.Chance(1, 4), 1))
	}
	if r.Chance(1, 3) {
		body = append(body, &Node{Kind: "raw", Head: "private"})
		d := g.def(sc, id, false, 1)
		g.methods[len(g.methods)-1].private = true
		body = append(body, d)
	}
	n.Bodies = [][]*Node{body}
	g.classes = append(g.classes, id)
	out := []*Node{n}
	// use it
	for _, m := range g.methods {
		if m.class == id && !m.private && r.Chance(2, 3) {
			v := &genVar{id: g.newName("local"), ty: m.ret}
			sc.vars = append(sc.vars, v)
			out = append(out, &Node{Kind: "assign", Head: ph(v.id) + " = " + g.callText(sc, m), Feat: []string{"method-call"}})
			out = append(out, &Node{Kind: "probe", Head: "dbtp " + ph(v.id)})
		}
	}
	return out
}

// Program generates a whole program.
func (g *Gen) Program() *Program {
	sc := &scope{}
	g.p.Nodes = g.stmts(sc, g.opts.Stmts, 0, false)
	return g.p
}

func genProgram(r *RNG, opts GenOpts) *Program {
	return NewGen(r, opts).Program()
}

func init() {
	generatedFamilies = func(c *CheckCtx, modes [][]string) []family {
		return []family{
			{name: "generated", n: c.N(300, 8000), gen: func(r *RNG, i int) *robustCase {
				p := genProgram(r, GenOpts{Classes: true, MultiLine: true, Stmts: 6 + r.Intn(12)})
				return &robustCase{Exec: srcExec(p.Render(nil).Text(), Pick(r, modes)...)}
			}},
			{name: "generated-prefix", n: c.N(500, 15000), gen: func(r *RNG, i int) *robustCase {
				p := genProgram(r, GenOpts{Classes: true, MultiLine: true, Stmts: 6 + r.Intn(12)})
				return &robustCase{Exec: srcExec(cutPrefix(r, p.Render(nil).Text()), Pick(r, modes)...)}
			}},
			{name: "generated-mutation", n: c.N(300, 10000), gen: func(r *RNG, i int) *robustCase {
				p := genProgram(r, GenOpts{Classes: true, MultiLine: true, Stmts: 6 + r.Intn(12)})
				return &robustCase{Exec: srcExec(mutateTokens(r, p.Render(nil).Text()), Pick(r, modes)...)}
			}},
		}
	}
}
