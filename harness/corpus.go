package main

import (
	"os"
	"path/filepath"
	"regexp"
	"sort"
	"strconv"
	"strings"
	"sync"
)

// CorpusItem is one golden test of the repository: program, flags, expected
// output as recorded in its _test.go.
type CorpusItem struct {
	Name     string
	File     string // file name used on the command line (./xxxx.rb)
	Source   string
	Args     []string // arguments after the file
	Expected string
}

var (
	corpusOnce sync.Once
	corpus     []*CorpusItem
)

var cmdRe = regexp.MustCompile(`exec\.Command\(("(?:[^"\\]|\\.)*"(?:\s*,\s*"(?:[^"\\]|\\.)*")*)\)`)
var strRe = regexp.MustCompile(`"(?:[^"\\]|\\.)*"`)
var expRe = regexp.MustCompile("(?s)expectedOutput := (\"(?:[^\"\\\\]|\\\\.)*\"|`[^`]*`)")

func Corpus() []*CorpusItem {
	corpusOnce.Do(func() {
		dir := filepath.Join(repoDir, "test")
		tests, _ := filepath.Glob(filepath.Join(dir, "*_test.go"))
		sort.Strings(tests)
		for _, tf := range tests {
			data, err := os.ReadFile(tf)
			if err != nil {
				continue
			}
			src := string(data)
			m := cmdRe.FindStringSubmatch(src)
			if m == nil {
				continue
			}
			var parts []string
			for _, q := range strRe.FindAllString(m[1], -1) {
				u, err := strconv.Unquote(q)
				if err != nil {
					u = strings.Trim(q, `"`)
				}
				parts = append(parts, u)
			}
			if len(parts) < 2 {
				continue
			}
			item := &CorpusItem{Name: strings.TrimSuffix(filepath.Base(tf), "_test.go"), File: parts[1], Args: parts[2:]}
			rb, err := os.ReadFile(filepath.Join(dir, parts[1]))
			if err != nil {
				continue
			}
			item.Source = string(rb)
			if em := expRe.FindStringSubmatch(src); em != nil {
				if strings.HasPrefix(em[1], "`") {
					item.Expected = strings.Trim(em[1], "`")
				} else if u, err := strconv.Unquote(em[1]); err == nil {
					item.Expected = u
				}
			}
			corpus = append(corpus, item)
		}
		if len(corpus) == 0 {
			fatalf("no corpus programs found under %s/test", repoDir)
		}
	})
	return corpus
}

// golden runs the repository's golden tests against the binary built from
// the working tree (the regression gate for fix: commits; not a property).
func golden(eng *Engine) (pass, fail int, failures []string) {
	items := Corpus()
	dir := filepath.Join(repoDir, "test")
	type res struct {
		ok   bool
		desc string
	}
	out := make([]res, len(items))
	eng.Map(len(items), func(s *Slot, i int) {
		it := items[i]
		var r *Result
		for attempt := 0; attempt < 8; attempt++ {
			r = runBinary(eng, eng.B.Plain, dir, append([]string{it.File}, it.Args...), nil)
			if !r.Timeout() {
				break
			}
			// the product's wall-clock watchdog fired on a loaded machine: retry alone
			eng.Quiet(func() {
				r = runBinary(eng, eng.B.Plain, dir, append([]string{it.File}, it.Args...), nil)
			})
			if !r.Timeout() {
				break
			}
		}
		got := strings.TrimSpace(r.Stdout + r.Stderr)
		if got == strings.TrimSpace(it.Expected) {
			out[i] = res{ok: true}
		} else {
			out[i] = res{desc: it.Name + ": expected " + oneLine(it.Expected, 200) + " got " + oneLine(got, 200)}
		}
	})
	for _, r := range out {
		if r.ok {
			pass++
		} else {
			fail++
			failures = append(failures, r.desc)
		}
	}
	return
}
