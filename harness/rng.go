package main

// splitmix64: every random choice in the harness comes from streams derived
// from VERIF_SEED, so a seed determines the whole case list.
type RNG struct{ s uint64 }

func NewRNG(seed uint64) *RNG { return &RNG{s: seed*0x9E3779B97F4A7C15 + 0x1234567} }

func (r *RNG) Next() uint64 {
	r.s += 0x9E3779B97F4A7C15
	z := r.s
	z = (z ^ (z >> 30)) * 0xBF58476D1CE4E5B9
	z = (z ^ (z >> 27)) * 0x94D049BB133111EB
	return z ^ (z >> 31)
}

// Sub derives an independent stream for item i.
func (r *RNG) Sub(i uint64) *RNG {
	return NewRNG(r.s ^ (i+1)*0xD6E8FEB86659FD93)
}

func (r *RNG) Intn(n int) int {
	if n <= 0 {
		return 0
	}
	return int(r.Next() % uint64(n))
}

func (r *RNG) Bool() bool { return r.Next()&1 == 1 }

// Chance returns true with probability num/den.
func (r *RNG) Chance(num, den int) bool { return r.Intn(den) < num }

func Pick[T any](r *RNG, xs []T) T { return xs[r.Intn(len(xs))] }

func Shuffle[T any](r *RNG, xs []T) {
	for i := len(xs) - 1; i > 0; i-- {
		j := r.Intn(i + 1)
		xs[i], xs[j] = xs[j], xs[i]
	}
}
