package main

import (
	"sort"
	"encoding/json"
	"fmt"
	"strings"
)

// ---------------------------------------------------------------------------
// C19 / C20 / C21: relations between configurations

// CfgSpec describes a configuration relative to the shipped one, so that
// replay files stay small.
type CfgSpec struct {
	Rename map[string]string `json:"rename,omitempty"` // shipped file name -> new file name
	Extra  map[string]string `json:"extra,omitempty"`  // additional files
}

func (s *CfgSpec) build() *Config {
	c := &Config{Files: map[string]string{}}
	for n, body := range ShippedConfig().Files {
		if nn, ok := s.Rename[n]; ok {
			c.Files[nn] = body
		} else {
			c.Files[n] = body
		}
	}
	for n, body := range s.Extra {
		c.Files[n] = body
	}
	return c
}

type cfgCase struct {
	A       CfgSpec  `json:"a"`
	BSpec   CfgSpec  `json:"b"`
	Source  string   `json:"source"`
	Argv    []string `json:"argv"` // extra arguments
	Kind    string   `json:"kind"`
	Feature string   `json:"feature"`
	// Alt, for the split-overloads family: one file per class again, with the
	// overloads of every method in the order the split files' names induce
	Alt *CfgSpec `json:"alt,omitempty"`
}

func judgeCfg(c *CheckCtx, rn Runner, cc *cfgCase, sigPrefix string) *Violation {
	argv := append([]string{targetFile}, cc.Argv...)
	o1, ok1 := relRun(c, rn, &Exec{Files: map[string]string{targetFile: cc.Source}, Argv: argv, Config: cc.A.build()})
	o2, ok2 := relRun(c, rn, &Exec{Files: map[string]string{targetFile: cc.Source}, Argv: argv, Config: cc.BSpec.build()})
	if !ok1 || !ok2 {
		c.Event("skipped_crash_or_hang", 1)
		return nil
	}
	if o1 != "" {
		c.Event("pairs_with_output", 1)
		c.Nontrivial(cc.Kind + "\x00" + strings.Join(cc.Argv, " ") + "\x00" + cc.Source + "\x00" + cc.BSpec.build().Hash())
	}
	if o1 == o2 {
		return nil
	}
	sig := sigPrefix + ":" + cc.Kind + ":" + cc.Feature + ":" + diffTemplate(parseOut(o1), parseOut(o2))
	if cc.Feature == "split-overloads-across-files" {
		// listed finding: the order of one method's declarations follows the load
		// order of the files. A difference is that finding only if the split
		// configuration behaves exactly like ONE file with the declarations in
		// the induced order; anything else is a new violation.
		sig = sigPrefix + ":" + cc.Kind + ":" + cc.Feature
		if cc.Alt != nil {
			o3, ok3 := relRun(c, rn, &Exec{Files: map[string]string{targetFile: cc.Source}, Argv: argv, Config: cc.Alt.build()})
			if !ok3 {
				c.Event("skipped_crash_or_hang", 1)
				return nil
			}
			if o3 != o2 {
				c.Event("split_overloads_not_explained_by_order", 1)
				sig += ":not-explained-by-declaration-order:" + diffTemplate(parseOut(o3), parseOut(o2))
			} else {
				c.Event("split_overloads_explained_by_order", 1)
			}
		}
	}
	return &Violation{Sig: sig, Kind: "cfg", Case: mustJSON(cc),
		What:     fmt.Sprintf("two equivalent configurations (%s; %s) give different output for the same program (argv %v)", cc.Kind, cc.Feature, cc.Argv),
		Expected: clip(o1, 3000), Observed: clip(o2, 3000)}
}

func cfgReplay(prefix string) func(c *CheckCtx, s *Slot, v *Violation) *Violation {
	return func(c *CheckCtx, s *Slot, v *Violation) *Violation {
		var cc cfgCase
		if json.Unmarshal(v.Case, &cc) != nil {
			return nil
		}
		return judgeCfg(c, s.BlackBox(), &cc, prefix)
	}
}

func runCfgJobs(c *CheckCtx, jobs []*cfgCase, prefix string) {
	c.Extra("pairs", len(jobs))
	// jobs of one configuration pair run on one lane, one after the other, so
	// that each configuration costs one worker start
	groups := map[string][]int{}
	var order []string
	for i, cc := range jobs {
		k := cc.A.build().Hash() + cc.BSpec.build().Hash()
		if _, ok := groups[k]; !ok {
			order = append(order, k)
		}
		groups[k] = append(groups[k], i)
	}
	c.Extra("configuration_pairs", len(order))
	c.Eng.Map(len(order), func(s *Slot, g int) {
		for _, i := range groups[order[g]] {
			cc := jobs[i]
			if i%97 == 0 {
				c.Sample(map[string]any{"kind": cc.Kind, "feature": cc.Feature, "argv": cc.Argv, "extra_files_b": sortedKeys(cc.BSpec.Extra), "source": clip(cc.Source, 300)})
			}
			if v := exploreThenJudge(c, s, func(rn Runner) *Violation { return judgeCfg(c, rn, cc, prefix) }); v != nil {
				c.Report(v)
			}
		}
	})
}

// suggestArgs returns --suggest for the row of the first "oN." style line.
func lastRowArgs(src string) []string {
	return []string{"--suggest", fmt.Sprintf("--row=%d", strings.Count(src, "\n"))}
}

func init() {
	register(&Check{ID: "C19", Title: "config file names and splitting do not matter", Replay: cfgReplay("cfg-files"), Run: func(c *CheckCtx) {
		c.rule = "pairs of configuration directories with the same declarations: (a) the shipped files under random new names (different glob/load order); (b) generated classes (extends chains, overloads, methods named like a parent's or like Object#to_s/inspect) written one file per class vs split over 2-4 files with random names, \"extends\" repeated in every part or written in one part only; programs: corpus programs (with their recorded flags) for (a), programs calling every generated method with fitting and non-fitting arguments for (b); modes plain, -i, --suggest, --llm-define --class=. Oracle: byte-identical output. distinct_nontrivial = distinct (pair, program, mode) with non-empty output"
		c.assumptions = []string{"one serve worker (or one fresh process) per configuration directory; candidates are confirmed on the plain binary"}
		r := c.RNG.Sub(19)
		items := Corpus()
		var jobs []*cfgCase
		// (a) renamed shipped files
		for k := 0; k < c.N(6, 60); k++ {
			ren := map[string]string{}
			for n := range ShippedConfig().Files {
				ren[n] = fmt.Sprintf("%c%c_%s", 'a'+byte(r.Intn(26)), 'a'+byte(r.Intn(26)), n)
			}
			for q := 0; q < c.N(25, 150); q++ {
				it := Pick(r, items)
				jobs = append(jobs, &cfgCase{BSpec: CfgSpec{Rename: ren}, Source: it.Source, Argv: it.Args, Kind: "renamed-files", Feature: "shipped"})
			}
		}
		// (b) split classes
		for k := 0; k < c.N(14, 200); k++ {
			classes := genClasses(r, 2+r.Intn(4), "")
			one := map[string]string{}
			split := map[string]string{}
			alt := map[string]string{}
			feat := "split"
			for _, cl := range classes {
				one["zz_"+strings.ToLower(cl.Name)+".json"] = cl.toJSON(Notation{}, r, nil)
				parts := 2 + r.Intn(3)
				assign := make([]int, len(cl.Methods))
				byName := map[string]int{}
				splitOverloads := r.Chance(1, 4)
				for i := range assign {
					assign[i] = r.Intn(parts)
					// overloads of one method normally stay in one file: their order is
					// part of the declaration (first match wins, messages cite the first)
					if prev, ok := byName[cl.Methods[i].Name]; ok {
						if splitOverloads && assign[i] != prev {
							feat = "split-overloads-across-files"
						} else {
							assign[i] = prev
						}
					} else {
						byName[cl.Methods[i].Name] = assign[i]
					}
				}
				// "extends" repeated in every part, or written in one part only
				extendsPart := -1
				if len(cl.Extends) > 0 && r.Bool() {
					extendsPart = r.Intn(parts)
				}
				partName := make([]string, parts)
				for pi := 0; pi < parts; pi++ {
					pi := pi
					name := fmt.Sprintf("%c%c_%s_%d.json", 'a'+byte(r.Intn(26)), 'a'+byte(r.Intn(26)), strings.ToLower(cl.Name), pi)
					partName[pi] = name
					part := cl
					if extendsPart >= 0 && pi != extendsPart {
						cp := *cl
						cp.Extends = nil
						part = &cp
					}
					split[name] = part.toJSON(Notation{}, r, func(i int) bool { return assign[i] == pi })
				}
				if len(cl.Extends) > 0 && feat == "split" {
					feat = "split+extends"
				}
				// the same class in one file, methods in the order in which the parts
				// are loaded (files load in the lexical order of their names)
				idx := make([]int, len(cl.Methods))
				for i := range idx {
					idx[i] = i
				}
				sort.SliceStable(idx, func(a, b int) bool { return partName[assign[idx[a]]] < partName[assign[idx[b]]] })
				cp := *cl
				cp.Methods = nil
				for _, i := range idx {
					cp.Methods = append(cp.Methods, cl.Methods[i])
				}
				alt["zz_"+strings.ToLower(cl.Name)+".json"] = cp.toJSON(Notation{}, r, nil)
			}
			var altSpec *CfgSpec
			if feat == "split-overloads-across-files" {
				altSpec = &CfgSpec{Extra: alt}
			}
			src := callProgram(r, classes)
			for _, argv := range [][]string{{}, {"-i"}, {"--llm-define", "--class=" + classes[0].Name}} {
				jobs = append(jobs, &cfgCase{A: CfgSpec{Extra: one}, BSpec: CfgSpec{Extra: split}, Source: src, Argv: argv, Kind: "split-class", Feature: feat, Alt: altSpec})
			}
			sg := src + "o0.\n"
			jobs = append(jobs, &cfgCase{A: CfgSpec{Extra: one}, BSpec: CfgSpec{Extra: split}, Source: sg, Argv: lastRowArgs(sg), Kind: "split-class", Feature: feat, Alt: altSpec})
			// also: the same one-file-per-class files under other names (load order of parent/child)
			ren := map[string]string{}
			for n, body := range one {
				ren[fmt.Sprintf("%c%c_%s", 'a'+byte(r.Intn(26)), 'a'+byte(r.Intn(26)), n)] = body
			}
			jobs = append(jobs, &cfgCase{A: CfgSpec{Extra: one}, BSpec: CfgSpec{Extra: ren}, Source: src, Argv: []string{}, Kind: "renamed-files", Feature: "generated-" + feat})
		}
		runCfgJobs(c, jobs, "cfg-files")
	}})

	register(&Check{ID: "C20", Title: "declarations for unmentioned classes do not matter", Replay: cfgReplay("cfg-extra"), Run: func(c *CheckCtx) {
		c.rule = "pairs (configuration, configuration + extra files declaring classes the program never mentions): extra classes in frame Builtin with fresh names, namespaced classes in other frames (Frame::Name written as frame+class and as class \"Frame::Name\"), classes in another frame that reuse the short name of a user class or module of the program (the user class or its including class also inside a namespace, naming its sibling superclass or a top-level module by the short name) (also of a superclass the program references before defining it), and classes in another frame that reuse the short name of a core class (String, Array, ...) and redeclare its methods with other signatures (loaded before or after the core file); programs: corpus programs, generated programs with user classes, forward-superclass programs, calls of the redeclared core methods on literals; modes plain and -i. Oracle: byte-identical output. distinct_nontrivial = distinct (pair, program, mode) with non-empty output"
		c.assumptions = []string{"extra class names are checked not to occur in the program text (except the deliberately reused short names, which live in another frame)"}
		r := c.RNG.Sub(20)
		items := Corpus()
		var jobs []*cfgCase
		for k := 0; k < c.N(16, 200); k++ {
			extra := map[string]string{}
			classes := genClasses(r, 1+r.Intn(3), "Zx")
			for _, cl := range classes {
				extra["zx_"+strings.ToLower(cl.Name)+".json"] = cl.toJSON(Notation{}, r, nil)
			}
			// programs
			var progs []struct {
				src  string
				argv []string
				feat string
			}
			for q := 0; q < c.N(8, 40); q++ {
				it := Pick(r, items)
				if len(it.Args) > 0 && it.Args[0] != "-i" {
					continue
				}
				progs = append(progs, struct {
					src  string
					argv []string
					feat string
				}{it.Source, it.Args, "corpus"})
			}
			for q := 0; q < c.N(8, 40); q++ {
				p := genProgram(r, GenOpts{Classes: true, Stmts: 6 + r.Intn(8)})
				src := p.Render(nil).Text()
				progs = append(progs, struct {
					src  string
					argv []string
					feat string
				}{src, Pick(r, [][]string{{}, {"-i"}}), "generated"})
			}
			for _, pg := range progs {
				ex := map[string]string{}
				for n, b := range extra {
					ex[n] = b
				}
				feat := pg.feat
				// a configured class in another frame with the short name of a user class
				if m := classNameRe.FindAllStringSubmatch(pg.src, -1); len(m) > 0 && r.Bool() {
					short := Pick(r, m)[1]
					fr := Pick(r, []string{"Extlib", "Vendor"})
					if !strings.Contains(pg.src, fr) {
						gc := &GClass{Name: short, Methods: []*GMethod{{Name: "zzext", Ret: []string{"Int"}}, {Name: "new", Static: true, Ret: []string{"Int"}}}}
						body := gc.toJSON(Notation{}, r, nil)
						body = strings.Replace(body, `"frame": "Builtin"`, `"frame": "`+fr+`"`, 1)
						ex["zx_reuse_"+strings.ToLower(short)+".json"] = body
						feat += "+reused-short-name"
					}
				}
				skip := false
				for _, cl := range classes {
					if strings.Contains(pg.src, cl.Name) {
						skip = true
					}
				}
				if skip {
					continue
				}
				jobs = append(jobs, &cfgCase{BSpec: CfgSpec{Extra: ex}, Source: pg.src, Argv: pg.argv, Kind: "extra-classes", Feature: feat})
			}
		}
		// forward-referenced superclasses (subclass above its superclass, nested class
		// inheriting from the enclosing class) with a configured class of the
		// superclass's short name in another frame
		for k := 0; k < c.N(20, 300); k++ {
			src, super := genForwardRefProgram(r)
			fr := Pick(r, []string{"Extlib", "Vendor", "Archive"})
			gc := &GClass{Name: super, Methods: []*GMethod{{Name: "zzext", Ret: []string{"Int"}}, {Name: "new", Static: true, Ret: []string{"Int"}}}}
			body := gc.toJSON(Notation{}, r, nil)
			if r.Bool() {
				body = strings.Replace(body, `"frame": "Builtin"`, `"frame": "`+fr+`"`, 1)
			} else {
				body = strings.Replace(body, `"class": "`+super+`"`, `"class": "`+fr+`::`+super+`"`, 1)
			}
			ex := map[string]string{fmt.Sprintf("%c%c_%s.json", 'a'+byte(r.Intn(26)), 'a'+byte(r.Intn(26)), strings.ToLower(super)): body}
			jobs = append(jobs, &cfgCase{BSpec: CfgSpec{Extra: ex}, Source: src, Argv: Pick(r, [][]string{{}, {"-i"}}), Kind: "extra-classes", Feature: "forward-superclass+reused-short-name"})
		}
		// user modules (included, extended, called) whose name a configured class of
		// another frame also has. (A CONSTANT of that name is not covered by the
		// property: the program then does mention the name, and not as a class.)
		for k := 0; k < c.N(36, 300); k++ {
			name := Pick(r, []string{"Helper", "Util", "Greeter", "Tools"})
			var sb strings.Builder
			feat := "module-include+reused-short-name"
			switch r.Intn(6) {
			case 3:
				// the including class lives in a namespace, the module at top level
				feat = "module-include-from-namespace+reused-short-name"
				fmt.Fprintf(&sb, "module %s\n  def helper\n    1\n  end\nend\n\nmodule App\n  class Host\n    include %s\n  end\nend\n\nh = App::Host.new\ndbtp h.helper\nh.zzext\n", name, name)
			case 4:
				feat = "module-extend-from-namespace+reused-short-name"
				fmt.Fprintf(&sb, "module %s\n  def helper\n    \"s\"\n  end\nend\n\nmodule App\n  class Host\n    extend %s\n  end\nend\n\ndbtp App::Host.helper\n", name, name)
			case 5:
				// sibling classes of one namespace, the superclass named by its short name
				feat = "namespaced-sibling-superclass+reused-short-name"
				fmt.Fprintf(&sb, "module Zoo\n  class %s\n    def helper\n      \"s\"\n    end\n    def self.kinds\n      1\n    end\n  end\n  class Dog < %s\n  end\nend\n\nd = Zoo::Dog.new\ndbtp d.helper\ndbtp Zoo::Dog.kinds\nd.zzext\n", name, name)
			case 0:
				fmt.Fprintf(&sb, "module %s\n  def helper\n    1\n  end\nend\n\nclass Host\n  include %s\nend\n\nh = Host.new\ndbtp h.helper\nh.zzext\n", name, name)
			case 1:
				fmt.Fprintf(&sb, "module %s\n  def helper\n    \"s\"\n  end\nend\n\nclass Host\n  extend %s\nend\n\ndbtp Host.helper\n", name, name)
			default:
				fmt.Fprintf(&sb, "module %s\n  def self.build\n    2.5\n  end\nend\n\ndbtp %s.build\n", name, name)
			}
			fr := Pick(r, []string{"Extlib", "Vendor"})
			gc := &GClass{Name: name, Methods: []*GMethod{{Name: "helper", Params: []GParam{{Types: []string{"String"}}}, Ret: []string{"Float"}}, {Name: "new", Static: true, Ret: []string{"Int"}}}}
			body := gc.toJSON(Notation{}, r, nil)
			if r.Bool() {
				body = strings.Replace(body, `"frame": "Builtin"`, `"frame": "`+fr+`"`, 1)
			} else {
				body = strings.Replace(body, `"class": "`+name+`"`, `"class": "`+fr+`::`+name+`"`, 1)
			}
			ex := map[string]string{fmt.Sprintf("%c%c_%s.json", 'a'+byte(r.Intn(26)), 'a'+byte(r.Intn(26)), strings.ToLower(name)): body}
			jobs = append(jobs, &cfgCase{BSpec: CfgSpec{Extra: ex}, Source: sb.String(), Argv: Pick(r, [][]string{{}, {"-i"}}), Kind: "extra-classes", Feature: feat})
		}
		// a class in another frame that reuses the short name of a CORE class and
		// redeclares one of its methods with another signature
		if model, err := BuildModel(ShippedConfig()); err == nil {
			core := []struct{ class, lit string }{{"String", "\"abc\""}, {"Array", "[1, 2]"}, {"Integer", "5"}, {"Hash", "{a: 1}"}, {"Float", "2.5"}, {"Symbol", ":sym"}}
			for k := 0; k < c.N(24, 300); k++ {
				cc := Pick(r, core)
				mc := model.Classes["Builtin::"+cc.class]
				if mc == nil {
					continue
				}
				var names []string
				for n := range mc.Instance {
					if isPlainMethodName(n) {
						names = append(names, n)
					}
				}
				sort.Strings(names)
				if len(names) == 0 {
					continue
				}
				fr := Pick(r, []string{"Template", "Extlib", "Vendor"})
				gc := &GClass{Name: cc.class}
				var sb strings.Builder
				fmt.Fprintf(&sb, "cv = %s\n", cc.lit)
				for q := 0; q < 3; q++ {
					mn := Pick(r, names)
					pt := Pick(r, gScalarTypes)
					gc.Methods = append(gc.Methods, &GMethod{Name: mn, Params: []GParam{{Types: []string{pt}}}, Ret: []string{Pick(r, gScalarTypes)}})
					for ai, args := range []string{"", litForName(pt), litForName(Pick(r, gScalarTypes)), "[1]", litForName(pt) + ", " + litForName(pt)} {
						call := "cv." + mn
						if args != "" {
							call += "(" + args + ")"
						}
						fmt.Fprintf(&sb, "x%d_%d = %s\ndbtp x%d_%d\n", q, ai, call, q, ai)
					}
				}
				body := gc.toJSON(Notation{}, r, nil)
				if r.Bool() {
					body = strings.Replace(body, `"frame": "Builtin"`, `"frame": "`+fr+`"`, 1)
				} else {
					body = strings.Replace(body, `"class": "`+cc.class+`"`, `"class": "`+fr+`::`+cc.class+`"`, 1)
				}
				// loaded before or after the core class's own file
				ex := map[string]string{Pick(r, []string{"aa_", "zz_"}) + strings.ToLower(fr+"_"+cc.class) + ".json": body}
				jobs = append(jobs, &cfgCase{BSpec: CfgSpec{Extra: ex}, Source: sb.String(), Argv: Pick(r, [][]string{{}, {"-i"}}), Kind: "extra-classes", Feature: "core-short-name-in-other-frame"})
			}
		}
		runCfgJobs(c, jobs, "cfg-extra")
	}})

	register(&Check{ID: "C21", Title: "equivalent notations mean the same", Replay: cfgReplay("cfg-notation"), Run: func(c *CheckCtx) {
		c.rule = "generated classes rendered twice: long notation ([\"A\",\"B\"], [T,\"NilClass\"], is_default, is_asterisk, TArray, Integer) and compact notation (\"A|B\", \"?T\" return, \"?T\"/DefaultT argument, \"*T\", \"[T]\", Int, OptionalT); programs call every generated method with fitting and non-fitting arguments, through union receivers and with blocks; every other class set has a method with an optional or rest parameter whose type is a class of another namespace (Store::Entry); modes plain, -i, --suggest and --llm-define --class= (rendered signatures). Oracle: byte-identical output. distinct_nontrivial = distinct (class set, program, mode) with non-empty output"
		r := c.RNG.Sub(21)
		var jobs []*cfgCase
		for k := 0; k < c.N(40, 600); k++ {
			classes := genClasses(r, 1+r.Intn(4), "")
			long := map[string]string{}
			compact := map[string]string{}
			if r.Bool() {
				// a parameter whose type is a class of another namespace, optional or rest
				p := GParam{Types: []string{"Store::Entry"}}
				if r.Bool() {
					p.Default = true
				} else {
					p.Rest = true
				}
				nsm := &GMethod{Name: "nsm", Params: []GParam{p}, Ret: []string{"Int"}}
				if r.Bool() {
					// ... and which may return an instance of it, or nil
					nsm.Ret, nsm.RetNilable = []string{"Store::Entry"}, true
				}
				classes[0].Methods = append(classes[0].Methods, nsm)
				entry := `{"frame":"Store","class":"Entry","instance_methods":[{"name":"val","arguments":[],"return_type":{"type":["Integer"]}}],"class_methods":[{"name":"make","arguments":[],"return_type":{"type":["Self"]}}]}`
				long["zz_store_entry.json"] = entry
				compact["zz_store_entry.json"] = entry
			}
			if r.Bool() {
				// an array of arrays: "[[T]]" and "[TArray]"
				classes[0].Methods = append(classes[0].Methods, &GMethod{Name: "nest", Ret: []string{"Int"}, RetArrayOf: Pick(r, []string{"Int", "String", "Float"}), RetNested: true})
			}
			rr := r.Sub(uint64(k))
			for _, cl := range classes {
				long["zz_"+strings.ToLower(cl.Name)+".json"] = cl.toJSON(Notation{}, rr, nil)
				compact["zz_"+strings.ToLower(cl.Name)+".json"] = cl.toJSON(Notation{Compact: true}, rr, nil)
			}
			feat := notationFeatures(classes)
			src := callProgram(r, classes)
			for _, argv := range [][]string{{}, {"-i"}, {"--llm-define", "--class=" + classes[0].Name}} {
				jobs = append(jobs, &cfgCase{A: CfgSpec{Extra: long}, BSpec: CfgSpec{Extra: compact}, Source: src, Argv: argv, Kind: "notation", Feature: feat})
			}
			sg := src + "o0.\n"
			jobs = append(jobs, &cfgCase{A: CfgSpec{Extra: long}, BSpec: CfgSpec{Extra: compact}, Source: sg, Argv: lastRowArgs(sg), Kind: "notation", Feature: feat})
		}
		runCfgJobs(c, jobs, "cfg-notation")
	}})
}

func notationFeatures(classes []*GClass) string {
	f := map[string]bool{}
	for _, cl := range classes {
		for _, m := range cl.Methods {
			if m.RetNilable {
				f["nilable-return"] = true
			}
			if m.RetArrayOf != "" {
				f["array-return"] = true
			}
			if len(m.Ret) > 1 {
				f["union-return"] = true
			}
			for _, p := range m.Params {
				if p.Default {
					f["default-arg"] = true
				}
				if p.Rest {
					f["rest-arg"] = true
				}
				if len(p.Types) > 1 {
					f["union-arg"] = true
				}
			}
		}
	}
	var out []string
	for k := range f {
		out = append(out, k)
	}
	return strings.Join(dedupSorted(out), "+")
}

func isPlainMethodName(n string) bool {
	if n == "" || n == "new" || n == "initialize" {
		return false
	}
	for i, ch := range n {
		switch {
		case ch >= 'a' && ch <= 'z', ch == '_':
		case ch >= '0' && ch <= '9' && i > 0:
		case (ch == '?' || ch == '!') && i == len(n)-1:
		default:
			return false
		}
	}
	return true
}

// genForwardRefProgram writes user classes whose superclass is defined later in
// the file (or is the enclosing class); it returns the program and the
// superclass's short name.
func genForwardRefProgram(r *RNG) (string, string) {
	supers := []string{"Document", "Record", "Widget", "Shape", "Account", "Node"}
	subs := []string{"Invoice", "Entry", "Button", "Circle", "Savings", "Leaf"}
	i := r.Intn(len(supers))
	super, sub := supers[i], subs[i]
	retLit := Pick(r, []string{"1", "\"t\"", "2.5", ":k"})
	var sb strings.Builder
	switch r.Intn(3) {
	case 0: // subclass above the superclass
		fmt.Fprintf(&sb, "class %s < %s\n  def total\n    title\n  end\nend\n\n", sub, super)
		fmt.Fprintf(&sb, "class %s\n  def title\n    %s\n  end\n\n  def self.make\n    %s.new\n  end\nend\n\n", super, retLit, super)
		fmt.Fprintf(&sb, "o = %s.new\ndbtp o.total\ndbtp o.title\ndbtp %s.make\no.zzext\n", sub, sub)
	case 1: // nested class inheriting from the enclosing class
		fmt.Fprintf(&sb, "class %s\n  class %s < %s\n    def total\n      title\n    end\n  end\n\n  def title\n    %s\n  end\nend\n\n", super, sub, super, retLit)
		fmt.Fprintf(&sb, "o = %s::%s.new\ndbtp o.total\ndbtp o.title\n", super, sub)
	default: // two levels, both forward
		fmt.Fprintf(&sb, "class Deep%s < %s\n  def deep\n    total\n  end\nend\n\n", sub, sub)
		fmt.Fprintf(&sb, "class %s < %s\n  def total\n    title\n  end\nend\n\n", sub, super)
		fmt.Fprintf(&sb, "class %s\n  def title\n    %s\n  end\nend\n\n", super, retLit)
		fmt.Fprintf(&sb, "o = Deep%s.new\ndbtp o.deep\ndbtp o.total\ndbtp o.title\n", sub)
	}
	return sb.String(), super
}
