package main

import (
	"encoding/json"
	"fmt"
	"sort"
	"strings"
)

// ---------------------------------------------------------------------------
// C10: nil?/is_a? narrowing is exact inside branches and undone afterwards.
//
// Generated programs: union-typed variables (ternaries, indexed array
// literals), conditionals (if/unless, elsif, else, nesting) whose conditions
// are x.nil?, !x.nil?, x.is_a?(C) and && chains of these over distinct
// variables, unrelated statements (assignments, calls, inner conditionals on
// `flag`) in the branches, and a dbtp probe of every variable in every branch
// and after every conditional. The model: a branch admits exactly the
// variants consistent with the tests that lead into it; after the conditional
// every variable has its pre-conditional type (no branch assigns a probed
// variable).

type nEnv map[string][]string

func (e nEnv) clone() nEnv {
	o := nEnv{}
	for k, v := range e {
		o[k] = append([]string{}, v...)
	}
	return o
}

func without(xs []string, x string) []string {
	var o []string
	for _, y := range xs {
		if y != x {
			o = append(o, y)
		}
	}
	return o
}

type nGen struct {
	r     *RNG
	stmts []*tStmt
	names []string
	fresh int
}

func (g *nGen) line(indent int, text, kind string) *tStmt {
	s := &tStmt{Text: strings.Repeat("  ", indent) + text, Kind: kind}
	g.stmts = append(g.stmts, s)
	return s
}

func (g *nGen) probeAll(indent int, env nEnv, where string) {
	for _, n := range g.names {
		if contains(env[n], "?") {
			continue // a branch no value reaches, or one ti narrows by its own convention
		}
		w := nWant(env[n])
		s := g.line(indent, "dbtp "+n, "probe")
		s.Want = &w
		s.RetKind = where
	}
}

// nClass is the class a variant is tested with: Array<Integer> -> Array.
func nClass(v string) string {
	if i := strings.IndexByte(v, '<'); i > 0 {
		return v[:i]
	}
	return v
}

// nWant is the printed type of a variant set: a single array variant keeps its
// element classes, inside a union a container counts with its class.
func nWant(vs []string) MT {
	if len(vs) == 1 && strings.HasPrefix(vs[0], "Array<") {
		return mtArray(strings.Fields(vs[0][6 : len(vs[0])-1])...)
	}
	var atoms []string
	for _, v := range vs {
		atoms = append(atoms, nClass(v))
	}
	return mt(atoms...)
}

func nLit(cl string) string {
	switch cl {
	case "Array<Integer>":
		return "[1, 2]"
	case "Array<String>":
		return "[\"a\", \"b\"]"
	case "Hash":
		return "{a: 1}"
	case "Integer":
		return "1"
	case "String":
		return "\"s\""
	case "Float":
		return "2.5"
	case "Symbol":
		return ":k"
	case "NilClass":
		return "nil"
	}
	return cl + ".new"
}

// one test on a variable that splits its current variants into two non-empty sets
type nTest struct {
	text      string
	name      string
	then, els []string
	kind      string
}

func (g *nGen) test(env nEnv, exclude map[string]bool) *nTest {
	var cands []string
	for _, n := range g.names {
		if !exclude[n] && len(env[n]) >= 2 && !contains(env[n], "?") {
			cands = append(cands, n)
		}
	}
	if len(cands) == 0 {
		return nil
	}
	n := Pick(g.r, cands)
	vs := env[n]
	hasNil := contains(vs, "NilClass")
	switch {
	case hasNil && g.r.Chance(1, 2):
		if g.r.Bool() {
			return &nTest{text: n + ".nil?", name: n, then: []string{"NilClass"}, els: without(vs, "NilClass"), kind: "nil?"}
		}
		return &nTest{text: "!" + n + ".nil?", name: n, then: without(vs, "NilClass"), els: []string{"NilClass"}, kind: "!nil?"}
	default:
		var cls []string
		for _, v := range vs {
			if v != "NilClass" {
				cls = append(cls, v)
			}
		}
		if len(cls) == 0 {
			return nil
		}
		c := Pick(g.r, cls)
		return &nTest{text: n + ".is_a?(" + nClass(c) + ")", name: n, then: []string{c}, els: without(vs, c), kind: "is_a?"}
	}
}

// redundant returns a test that does not split the variable's variants: a
// class test of a variable already narrowed to that class, nil? of a variable
// that is not nil, is_a? of a class that is not among the variants. One side
// keeps every variant and is judged; the other is reached by no value (or is
// narrowed to the tested class by ti's own convention) and is not judged.
func (g *nGen) redundant(env nEnv) *nTest {
	var cands []string
	for _, n := range g.names {
		if len(env[n]) >= 1 && !contains(env[n], "?") {
			cands = append(cands, n)
		}
	}
	if len(cands) == 0 {
		return nil
	}
	n := Pick(g.r, cands)
	vs := env[n]
	dead := []string{"?"}
	var opts []*nTest
	if len(vs) == 1 && vs[0] != "NilClass" {
		opts = append(opts, &nTest{text: n + ".is_a?(" + nClass(vs[0]) + ")", name: n, then: vs, els: dead, kind: "redundant-is_a?"})
	}
	if !contains(vs, "NilClass") {
		opts = append(opts,
			&nTest{text: n + ".nil?", name: n, then: dead, els: vs, kind: "redundant-nil?"},
			&nTest{text: "!" + n + ".nil?", name: n, then: vs, els: dead, kind: "redundant-!nil?"})
	}
	var others []string
	for _, c := range []string{"Integer", "String", "Float", "Symbol"} {
		ok := true
		for _, v := range vs {
			// Integer and Float are related through Numeric conventions: keep apart
			if nClass(v) == c || (c == "Integer" && v == "Float") || (c == "Float" && v == "Integer") {
				ok = false
			}
		}
		if ok {
			others = append(others, c)
		}
	}
	if len(others) > 0 {
		opts = append(opts, &nTest{text: n + ".is_a?(" + Pick(g.r, others) + ")", name: n, then: dead, els: vs, kind: "foreign-is_a?"})
	}
	if len(opts) == 0 {
		return nil
	}
	return opts[g.r.Intn(len(opts))]
}

// cond returns the condition text and the environments of the true and the
// false side.
func (g *nGen) cond(env nEnv) (string, nEnv, nEnv, string) {
	if g.r.Chance(1, 5) {
		if t := g.redundant(env); t != nil {
			thenE, elseE := env.clone(), env.clone()
			thenE[t.name] = t.then
			elseE[t.name] = t.els
			return t.text, thenE, elseE, t.kind
		}
	}
	t1 := g.test(env, nil)
	if t1 == nil {
		return "", nil, nil, ""
	}
	thenE, elseE := env.clone(), env.clone()
	thenE[t1.name] = t1.then
	elseE[t1.name] = t1.els
	text, kind := t1.text, t1.kind
	if t1.kind == "is_a?" && contains(env[t1.name], "NilClass") && g.r.Chance(1, 4) {
		// a redundant second term: `x.is_a?(C) && !x.nil?` holds exactly for C
		return text + " && !" + t1.name + ".nil?", thenE, elseE, kind + "&&same:!nil?"
	}
	if len(t1.then) >= 2 && g.r.Chance(1, 4) {
		// a second test of the same variable: `!x.nil? && x.is_a?(C)`; it holds
		// for exactly one class, so the false side is everything else
		sub := nEnv{t1.name: t1.then}
		save := g.names
		g.names = []string{t1.name}
		t2 := g.test(sub, nil)
		g.names = save
		if t2 != nil {
			thenE[t1.name] = t2.then
			var rest []string
			for _, v := range env[t1.name] {
				if !contains(t2.then, v) {
					rest = append(rest, v)
				}
			}
			if len(rest) > 0 {
				elseE[t1.name] = rest
				return text + " && " + t2.text, thenE, elseE, kind + "&&same:" + t2.kind
			}
			thenE[t1.name] = t1.then
		}
	}
	if g.r.Chance(1, 4) {
		if t2 := g.test(env, map[string]bool{t1.name: true}); t2 != nil {
			// a && b over distinct variables: both hold on the true side, nothing is
			// known on the false side
			thenE[t2.name] = t2.then
			elseE = env.clone()
			text += " && " + t2.text
			kind += "&&" + t2.kind
			if t3 := g.test(env, map[string]bool{t1.name: true, t2.name: true}); t3 != nil && g.r.Bool() {
				thenE[t3.name] = t3.then
				text += " && " + t3.text
				kind += "&&" + t3.kind
			}
		}
	}
	return text, thenE, elseE, kind
}

func (g *nGen) unrelated(indent int) {
	g.fresh++
	switch g.r.Intn(6) {
	case 0:
		g.line(indent, fmt.Sprintf("t%d = %s", g.fresh, nLit(Pick(g.r, []string{"Integer", "String", "Float", "Symbol"}))), "other")
	case 1:
		g.line(indent, fmt.Sprintf("t%d = \"abc\".upcase", g.fresh), "other")
	case 2:
		g.line(indent, "if flag", "other")
		g.line(indent+1, fmt.Sprintf("t%d = 1", g.fresh), "other")
		g.line(indent, "end", "other")
	case 3:
		g.line(indent, "unless flag", "other")
		g.line(indent+1, fmt.Sprintf("t%d = 1", g.fresh), "other")
		g.line(indent, "else", "other")
		g.line(indent+1, fmt.Sprintf("t%d = 2", g.fresh), "other")
		g.line(indent, "end", "other")
	case 4:
		g.line(indent, fmt.Sprintf("t%d = [1, 2].first", g.fresh), "other")
	default:
		g.line(indent, fmt.Sprintf("t%d = flag ? 1 : 2", g.fresh), "other")
	}
}

func (g *nGen) body(indent int, env nEnv, depth int, where string) {
	if g.r.Bool() {
		g.unrelated(indent)
	}
	g.probeAll(indent, env, where)
	if depth > 0 && g.r.Chance(1, 2) {
		g.conditional(indent, env, depth-1, where+">")
		g.probeAll(indent, env, where+">after")
	}
	if g.r.Chance(1, 3) {
		g.unrelated(indent)
		g.probeAll(indent, env, where)
	}
}

func (g *nGen) conditional(indent int, env nEnv, depth int, prefix string) bool {
	text, thenE, elseE, kind := g.cond(env)
	if text == "" {
		return false
	}
	kw := "if"
	if g.r.Chance(1, 4) {
		kw = "unless"
		thenE, elseE = elseE, thenE
	}
	g.line(indent, kw+" "+text, "open")
	g.body(indent+1, thenE, depth, prefix+kw+":"+kind)
	cur := elseE
	if kw == "if" && g.r.Chance(1, 3) {
		// elsif: tested with what the first condition left
		t2, then2, else2, kind2 := g.cond(cur)
		if t2 != "" {
			g.line(indent, "elsif "+t2, "open")
			g.body(indent+1, then2, depth, prefix+"elsif:"+kind+"/"+kind2)
			cur = else2
			kind += "/" + kind2
		}
	}
	if g.r.Chance(2, 3) {
		g.line(indent, "else", "open")
		g.body(indent+1, cur, depth, prefix+kw+"-else:"+kind)
	}
	g.line(indent, "end", "open")
	return true
}

func genNarrowProgram(r *RNG) []*tStmt {
	g := &nGen{r: r}
	g.line(0, "flag = true", "assign-literal")
	user := r.Chance(1, 3)
	if user {
		g.line(0, "class Foo", "class-decl")
		g.line(0, "end", "class-decl")
		g.line(0, "class Bar", "class-decl")
		g.line(0, "end", "class-decl")
	}
	env := nEnv{}
	pool := []string{"Integer", "String", "Float", "Symbol", "NilClass", "NilClass"}
	if user {
		// two user classes: instances of both may meet in one union
		pool = append(pool, "Foo", "Bar", "Foo", "Bar")
	}
	if r.Chance(1, 3) {
		pool = append(pool, "Array<Integer>", "Array<String>", "Hash", "Hash")
	}
	// global variables: narrowed like locals wherever they are tested - at top
	// level, in a method body, in a class's instance or class method
	globals := r.Chance(1, 4)
	nv := 1 + r.Intn(3)
	for i := 0; i < nv; i++ {
		name := []string{"x", "y", "z"}[i]
		if globals {
			name = "$" + name
		}
		k := 2 + r.Intn(3)
		var cls []string
		for len(cls) < k {
			c := Pick(r, pool)
			dup := contains(cls, c)
			for _, have := range cls {
				// two array variants would merge into one array type
				if nClass(have) == nClass(c) {
					dup = true
				}
			}
			if !dup {
				cls = append(cls, c)
			}
		}
		var lits []string
		for _, c := range cls {
			lits = append(lits, nLit(c))
		}
		if k == 2 && r.Bool() {
			g.line(0, fmt.Sprintf("%s = flag ? %s : %s", name, lits[0], lits[1]), "assign-union")
		} else {
			g.line(0, fmt.Sprintf("%s = [%s][0]", name, strings.Join(lits, ", ")), "assign-union")
		}
		sort.Strings(cls)
		env[name] = cls
		g.names = append(g.names, name)
	}
	g.probeAll(0, env, "before")
	nc := 1 + r.Intn(3)
	for i := 0; i < nc; i++ {
		if !g.conditional(0, env, 2, "") {
			break
		}
		g.probeAll(0, env, "after")
		if r.Bool() {
			g.unrelated(0)
		}
	}
	if r.Chance(1, 4) || (globals && r.Chance(2, 3)) {
		// the same statements as the body of a method that is called once; with
		// globals the method may belong to a class and the assignments may stay
		// at top level
		body := g.stmts
		g.stmts = nil
		form := 0
		if globals {
			form = r.Intn(3)
		}
		outside := globals && r.Bool()
		for _, s := range body {
			if s.Kind == "class-decl" {
				g.line(0, s.Text, "other")
			}
		}
		if outside {
			for _, s := range body {
				if s.Kind == "assign-union" || s.Kind == "assign-literal" {
					g.line(0, s.Text, "other")
				}
			}
		}
		ind, tag := "  ", "def:"
		switch form {
		case 1:
			g.line(0, "class Narrower", "other")
			g.line(1, "def narrowed", "other")
			ind, tag = "    ", "instance-def:"
		case 2:
			g.line(0, "class Narrower", "other")
			g.line(1, "def self.narrowed", "other")
			ind, tag = "    ", "class-def:"
		default:
			g.line(0, "def narrowed", "other")
		}
		if globals {
			tag = "global:" + tag
		}
		for _, s := range body {
			if (outside && s.Kind == "assign-union") || s.Kind == "class-decl" {
				continue
			}
			s.Text = ind + s.Text
			if s.RetKind != "" {
				s.RetKind = tag + s.RetKind
			}
			g.stmts = append(g.stmts, s)
		}
		g.line(len(ind)/2, "flag", "other")
		switch form {
		case 1:
			g.line(1, "end", "other")
			g.line(0, "end", "other")
			g.line(0, "Narrower.new.narrowed", "other")
		case 2:
			g.line(1, "end", "other")
			g.line(0, "end", "other")
			g.line(0, "Narrower.narrowed", "other")
		default:
			g.line(0, "end", "other")
			g.line(0, "narrowed", "other")
		}
	} else if globals {
		for _, s := range g.stmts {
			if s.RetKind != "" {
				s.RetKind = "global:" + s.RetKind
			}
		}
	}
	return g.stmts
}

func init() {
	register(&Check{ID: "C10", Title: "nil?/is_a? narrowing is exact inside branches and undone afterwards",
		Replay: func(c *CheckCtx, s *Slot, v *Violation) *Violation {
			var tc typedCase
			if json.Unmarshal(v.Case, &tc) != nil {
				return nil
			}
			return judgeTyped(c, s.BlackBox(), &tc, "C10")
		},
		Run: func(c *CheckCtx) {
			c.rule = "generated programs: 1-3 union-typed variables (ternaries, indexed array literals; variants Integer, String, Float, Symbol, NilClass, one or two user classes, Array<Integer>, Array<String>, Hash; local or global names), 1-3 conditionals at top level or in the body of a top-level method, an instance method or a class method (globals assigned inside or at top level), each if/unless with optional elsif and else, nested up to depth 3; conditions x.nil?, !x.nil?, x.is_a?(C) and && chains over distinct variables, splitting the current variants into two non-empty sets, or (one condition in five) not splitting them at all - a class test of a variable already narrowed to that class, nil? of a non-nil variable, is_a? of a foreign class - where only the side that keeps every variant is judged; unrelated statements (assignments, calls, inner if/unless on `flag`) inside branches; every variable is probed with dbtp in every branch and after every conditional; oracle: the printed type, parsed as a set, equals the variants the branch admits, and the pre-conditional type afterwards (no branch assigns a probed variable). distinct_nontrivial = distinct programs"
			c.assumptions = []string{"the false side of `a && b` admits every variant (nothing is known about either variable)", "candidates found in-process are confirmed on the plain binary"}
			r := c.RNG.Sub(10)
			n := c.N(300, 8000)
			jobs := make([]*typedCase, n)
			for i := range jobs {
				jobs[i] = &typedCase{Stmts: genNarrowProgram(r)}
			}
			c.Eng.Map(n, func(s *Slot, i int) {
				tc := jobs[i]
				if i%41 == 0 {
					c.Sample(map[string]any{"program": clip(tc.source(), 900)})
				}
				v := exploreThenJudge(c, s, func(rn Runner) *Violation { return judgeTyped(c, rn, tc, "C10") })
				if v != nil {
					c.Report(v)
				}
			})
		}})
}
