package main

import (
	"os"
	"path/filepath"
	"strings"
)

func mkdirAll(d string) { os.MkdirAll(d, 0o755) }

func countRaceReports(dir string) int {
	n := 0
	files, _ := filepath.Glob(filepath.Join(dir, "race*"))
	for _, f := range files {
		data, err := os.ReadFile(f)
		if err == nil {
			n += strings.Count(string(data), "WARNING: DATA RACE")
		}
	}
	return n
}

func firstRaceReport(dir string) string {
	files, _ := filepath.Glob(filepath.Join(dir, "race*"))
	for _, f := range files {
		data, err := os.ReadFile(f)
		if err == nil && strings.Contains(string(data), "WARNING: DATA RACE") {
			return tail(string(data), 4000)
		}
	}
	return ""
}
