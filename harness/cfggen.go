package main

import (
	"encoding/json"
	"fmt"
	"sort"
	"strings"
)

// ---------------------------------------------------------------------------
// CfgGen: generated .ti-config classes (added to the shipped configuration),
// renderable in the long and the compact notation, with programs that call
// every generated method with accepted and rejected arguments.

type GParam struct {
	Types   []string // documented names: Int, String, Float, Symbol, Bool, Array, Hash, Untyped, class names
	Default bool
	Rest    bool
	Key     string // keyword name without colon
}

type GMethod struct {
	Name        string
	Static      bool
	Params      []GParam
	Ret         []string // documented names or a special (Self, Unify, ...)
	RetNilable  bool     // "?T" / [T, NilClass]
	RetArrayOf  string   // "[T]" / TArray
	RetNested   bool     // with RetArrayOf: an array of arrays, "[[T]]" / "[TArray]"
	RetOptName  bool     // with RetNilable: the compact spelling is OptionalT, never ?T
	BlockParams []string
	Doc         string
}

type GClass struct {
	Name    string
	Extends []string
	Methods []*GMethod
}

var gScalarTypes = []string{"Int", "String", "Float", "Symbol", "Bool"}

func litForName(name string) string {
	switch name {
	case "Int", "Integer":
		return "7"
	case "String":
		return "\"s\""
	case "Float":
		return "2.5"
	case "Symbol":
		return ":k"
	case "Bool":
		return "true"
	case "Array":
		return "[1]"
	case "Hash":
		return "{a: 1}"
	case "NilClass":
		return "nil"
	case "Untyped":
		return "7"
	}
	if strings.Contains(name, "::") {
		return name + ".make" // namespaced configured classes come with a factory
	}
	return name + ".new"
}

func classOfName(name string) string {
	switch name {
	case "Int":
		return "Integer"
	}
	return name
}

// genClasses creates n classes with extends chains and overloads.
func genClasses(r *RNG, n int, prefix string) []*GClass {
	var out []*GClass
	names := []string{"Zeta", "Omega", "Kappa", "Sigma", "Theta", "Lambda", "Delta2", "Gamma2"}
	for i := 0; i < n && i < len(names); i++ {
		c := &GClass{Name: prefix + names[i]}
		if i > 0 && r.Chance(1, 2) {
			c.Extends = []string{out[r.Intn(i)].Name}
		}
		// constructor
		c.Methods = append(c.Methods, &GMethod{Name: "new", Static: true, Ret: []string{c.Name}})
		nm := 2 + r.Intn(4)
		for k := 0; k < nm; k++ {
			m := &GMethod{Name: fmt.Sprintf("m%d", k)}
			objectLike := false
			if r.Chance(1, 7) {
				// redeclares a method Object/Kernel also declare, with its own signature
				m.Name = Pick(r, []string{"to_s", "inspect"})
				objectLike = true
			}
			if i > 0 && r.Chance(1, 3) && len(out[0].Methods) > 1 {
				// same name as a method of an earlier class (possibly a parent)
				m.Name = out[r.Intn(i)].Methods[1].Name
			}
			np := r.Intn(4)
			if objectLike && np == 0 {
				np = 1
			}
			seenDefault := false
			for q := 0; q < np; q++ {
				p := GParam{Types: []string{Pick(r, gScalarTypes)}}
				if r.Chance(1, 4) {
					// unions of two to four members
					for extra := 1 + r.Intn(3); extra > 0; extra-- {
						p.Types = append(p.Types, Pick(r, gScalarTypes))
					}
					if r.Chance(1, 3) {
						// a union with an Untyped member takes anything
						p.Types = append(p.Types, "Untyped")
					}
					p.Types = dedupKeep(p.Types)
				}
				if len(p.Types) == 1 && r.Chance(1, 6) {
					p.Types = append(p.Types, "Untyped")
				}
				if seenDefault || (r.Chance(1, 4) && !(objectLike && q == 0)) {
					p.Default = true
					seenDefault = true
				}
				m.Params = append(m.Params, p)
			}
			if r.Chance(1, 6) {
				m.Params = append(m.Params, GParam{Types: []string{Pick(r, gScalarTypes)}, Rest: true})
			}
			if r.Chance(1, 3) {
				// one or two keywords; names that are prefixes of each other
				keys := []string{"mode", "mode2", "size", "size10", "name"}
				k1 := Pick(r, keys)
				m.Params = append(m.Params, GParam{Types: []string{Pick(r, gScalarTypes)}, Key: k1, Default: r.Bool()})
				if r.Bool() {
					k2 := Pick(r, keys)
					switch k1 {
					case "mode":
						k2 = "mode2"
					case "size10":
						k2 = "size"
					}
					if k2 != k1 {
						m.Params = append(m.Params, GParam{Types: []string{Pick(r, gScalarTypes)}, Key: k2, Default: r.Bool()})
					}
				}
			}
			switch r.Intn(8) {
			case 0:
				m.Ret = []string{"Self"}
			case 1:
				m.Ret = []string{Pick(r, gScalarTypes)}
				m.RetNilable = true
			case 2:
				m.RetArrayOf = Pick(r, []string{"String", "Int", "Float"})
			case 3:
				m.Ret = dedupKeep([]string{Pick(r, gScalarTypes), Pick(r, gScalarTypes)})
				if r.Bool() {
					m.Ret = dedupKeep(append(m.Ret, Pick(r, gScalarTypes), Pick(r, gScalarTypes)))
				}
			case 4:
				m.Ret = []string{c.Name}
			default:
				m.Ret = []string{Pick(r, gScalarTypes)}
			}
			if r.Chance(1, 6) {
				m.BlockParams = []string{Pick(r, gScalarTypes)}
			}
			c.Methods = append(c.Methods, m)
			// an overload with another arity
			if r.Chance(1, 5) {
				o := &GMethod{Name: m.Name, Ret: []string{Pick(r, gScalarTypes)}}
				for q := 0; q <= np; q++ {
					o.Params = append(o.Params, GParam{Types: []string{Pick(r, gScalarTypes)}})
				}
				c.Methods = append(c.Methods, o)
			}
		}
		if i == 0 {
			// always one method with two required keywords whose names share a prefix
			t1 := Pick(r, gScalarTypes)
			t2 := Pick(r, gScalarTypes)
			for t2 == t1 {
				t2 = Pick(r, gScalarTypes)
			}
			ks := Pick(r, [][2]string{{"mode", "mode2"}, {"size10", "size"}, {"pin", "pin2"}})
			c.Methods = append(c.Methods, &GMethod{Name: "kw2", Params: []GParam{{Types: []string{t1}, Key: ks[0]}, {Types: []string{t2}, Key: ks[1]}}, Ret: []string{Pick(r, gScalarTypes)}})
			// one method whose parameter is a union of three classes: a union
			// argument may be a strict subset of it
			u3 := dedupKeep([]string{t1, t2, Pick(r, gScalarTypes), Pick(r, gScalarTypes)})
			c.Methods = append(c.Methods, &GMethod{Name: "un3", Params: []GParam{{Types: u3}}, Ret: []string{t1}})
		}
		if i == 0 {
			// the three documented OptionalT names as return types
			for _, t := range []string{"Float", "Int", "String"} {
				c.Methods = append(c.Methods, &GMethod{Name: "opt_" + strings.ToLower(t), Ret: []string{t}, RetNilable: true, RetOptName: true})
			}
		}
		if i <= 1 {
			// one method declared twice, first without parameters, then with one
			// (`x.ov0 v` without parentheses has an argument); the first two
			// classes both have it, so a union of them answers it as well
			ta := Pick(r, gScalarTypes)
			tb := Pick(r, gScalarTypes)
			for tb == ta {
				tb = Pick(r, gScalarTypes)
			}
			c.Methods = append(c.Methods,
				&GMethod{Name: "ov0", Ret: []string{ta}},
				&GMethod{Name: "ov0", Params: []GParam{{Types: []string{Pick(r, gScalarTypes)}}}, Ret: []string{tb}})
			// and the usual pair the other way round: with a parameter first, then
			// without one and without a declared result
			c.Methods = append(c.Methods,
				&GMethod{Name: "ov1", Params: []GParam{{Types: []string{ta}}}, Ret: []string{tb}},
				&GMethod{Name: "ov1", Ret: []string{"Untyped"}})
		}
		out = append(out, c)
	}
	if len(out) >= 3 && r.Bool() {
		// a chain of depth two whose top redeclares, with a stricter signature,
		// a method Object declares too: the grandchild answers with the top's
		out[1].Extends = []string{out[0].Name}
		out[2].Extends = []string{out[1].Name}
		has := false
		for _, m := range out[0].Methods {
			if m.Name == "inspect" {
				has = true
			}
		}
		if !has {
			out[0].Methods = append(out[0].Methods, &GMethod{Name: "inspect", Params: []GParam{{Types: []string{"Int"}}}, Ret: []string{"String"}})
		}
		for _, c := range out[1:3] {
			var keep []*GMethod
			for _, m := range c.Methods {
				if m.Name != "inspect" {
					keep = append(keep, m)
				}
			}
			if len(keep) < 2 {
				// (never a class with `new` only: callers name its second method)
				keep = append(keep, &GMethod{Name: "kept_m", Ret: []string{"Int"}})
			}
			c.Methods = keep
		}
	}
	return out
}

func dedupKeep(xs []string) []string {
	seen := map[string]bool{}
	var out []string
	for _, x := range xs {
		if !seen[x] {
			seen[x] = true
			out = append(out, x)
		}
	}
	return out
}

// Notation selects how equivalent declarations are written.
type Notation struct {
	Compact bool // "A|B", "?T", "*T", "[T]", Int, OptionalX/DefaultX
}

func (m *GMethod) toJSON(nt Notation, r *RNG) map[string]any {
	out := map[string]any{"name": m.Name}
	var args []any
	for _, p := range m.Params {
		a := map[string]any{}
		names := append([]string{}, p.Types...)
		if !nt.Compact {
			for i, n := range names {
				if n == "Int" {
					names[i] = "Integer"
				}
			}
		}
		switch {
		case nt.Compact && len(names) == 1 && p.Default && !p.Rest && (names[0] == "Int" || names[0] == "String" || names[0] == "Float" || names[0] == "Bool") && r.Bool():
			a["type"] = "Default" + names[0]
		case nt.Compact && len(names) == 1 && p.Default && !p.Rest:
			a["type"] = "?" + names[0]
		case nt.Compact && len(names) == 1 && p.Rest:
			a["type"] = "*" + names[0]
		case nt.Compact && len(names) > 1:
			a["type"] = strings.Join(names, "|")
			if p.Default {
				a["is_default"] = true
			}
			if p.Rest {
				a["is_asterisk"] = true
			}
		default:
			a["type"] = names
			if p.Default {
				a["is_default"] = true
			}
			if p.Rest {
				a["is_asterisk"] = true
			}
		}
		if p.Key != "" {
			a["key"] = p.Key + ":"
		}
		args = append(args, a)
	}
	if len(args) > 0 {
		out["arguments"] = args
	}
	ret := map[string]any{}
	rn := append([]string{}, m.Ret...)
	if !nt.Compact {
		for i, n := range rn {
			if n == "Int" {
				rn[i] = "Integer"
			}
		}
	}
	switch {
	case m.RetArrayOf != "" && m.RetNested && nt.Compact:
		ret["type"] = "[[" + m.RetArrayOf + "]]"
	case m.RetArrayOf != "" && m.RetNested:
		ret["type"] = []string{"[" + m.RetArrayOf + "Array]"}
	case m.RetArrayOf != "" && nt.Compact:
		ret["type"] = "[" + m.RetArrayOf + "]"
	case m.RetArrayOf != "":
		ret["type"] = []string{m.RetArrayOf + "Array"}
	case m.RetNilable && nt.Compact && (rn[0] == "Int" || rn[0] == "String" || rn[0] == "Float") && (m.RetOptName || r.Bool()):
		ret["type"] = "Optional" + rn[0]
	case m.RetNilable && nt.Compact:
		ret["type"] = "?" + rn[0]
	case m.RetNilable:
		ret["type"] = []string{rn[0], "NilClass"}
	case nt.Compact && len(rn) > 1:
		ret["type"] = strings.Join(rn, "|")
	default:
		ret["type"] = rn
	}
	out["return_type"] = ret
	if len(m.BlockParams) > 0 {
		out["block_parameters"] = m.BlockParams
	}
	return out
}

func (c *GClass) toJSON(nt Notation, r *RNG, only func(i int) bool) string {
	d := map[string]any{"frame": "Builtin", "class": c.Name}
	if len(c.Extends) > 0 {
		d["extends"] = c.Extends
	}
	var im, cm []any
	for i, m := range c.Methods {
		if only != nil && !only(i) {
			continue
		}
		if m.Static {
			cm = append(cm, m.toJSON(nt, r))
		} else {
			im = append(im, m.toJSON(nt, r))
		}
	}
	if im != nil {
		d["instance_methods"] = im
	}
	if cm != nil {
		d["class_methods"] = cm
	}
	b, _ := json.MarshalIndent(d, "", "  ")
	return string(b)
}

// cfgWith returns the shipped configuration plus the given files.
func cfgWith(extra map[string]string) *Config {
	c := &Config{Files: map[string]string{}}
	for n, s := range ShippedConfig().Files {
		c.Files[n] = s
	}
	for n, s := range extra {
		c.Files[n] = s
	}
	return c
}

// callProgram calls every method of the classes with fitting and one
// non-fitting argument list, probing results.
func callProgram(r *RNG, classes []*GClass) string {
	var sb strings.Builder
	sb.WriteString("flag = true\n")
	for ci, c := range classes {
		v := fmt.Sprintf("o%d", ci)
		fmt.Fprintf(&sb, "%s = %s.new\ndbtp %s\n", v, c.Name, v)
		for mi, m := range c.Methods {
			if m.Static {
				continue
			}
			var fit []string
			for _, p := range m.Params {
				if p.Key != "" {
					if !p.Default || r.Bool() {
						fit = append(fit, p.Key+": "+litForName(Pick(r, p.Types)))
					}
					continue
				}
				if p.Default && r.Bool() {
					break
				}
				fit = append(fit, litForName(Pick(r, p.Types)))
				if p.Rest && r.Bool() {
					fit = append(fit, litForName(Pick(r, p.Types)))
				}
			}
			call := v + "." + m.Name
			if len(fit) > 0 {
				call += "(" + strings.Join(fit, ", ") + ")"
			}
			if len(m.BlockParams) > 0 && r.Bool() {
				call += " { |bx| dbtp bx }"
			}
			fmt.Fprintf(&sb, "r%d_%d = %s\ndbtp r%d_%d\n", ci, mi, call, ci, mi)
			// a wrong call: too many arguments or a wrong type
			switch r.Intn(3) {
			case 0:
				fmt.Fprintf(&sb, "%s.%s(%s)\n", v, m.Name, strings.Join(append(append([]string{}, fit...), "1", "2", "3", "4"), ", "))
			case 1:
				if len(m.Params) > 0 && m.Params[0].Key == "" && !contains(m.Params[0].Types, "Untyped") {
					wrong := "[1]"
					fmt.Fprintf(&sb, "%s.%s(%s)\n", v, m.Name, wrong)
				}
			}
		}
		// inherited methods called on the subclass instance
		for _, pn := range c.Extends {
			for _, pc := range classes {
				if pc.Name != pn {
					continue
				}
				for mi, m := range pc.Methods {
					if m.Static {
						continue
					}
					var fit []string
					for _, p := range m.Params {
						if p.Key != "" || p.Default {
							if p.Key != "" && !p.Default {
								fit = append(fit, p.Key+": "+litForName(p.Types[0]))
							}
							continue
						}
						fit = append(fit, litForName(p.Types[0]))
					}
					call := v + "." + m.Name
					if len(fit) > 0 {
						call += "(" + strings.Join(fit, ", ") + ")"
					}
					fmt.Fprintf(&sb, "h%d_%d = %s\ndbtp h%d_%d\n", ci, mi, call, ci, mi)
				}
			}
		}
		// a union receiver with another class's instance
		if ci > 0 && len(c.Methods) > 1 {
			fmt.Fprintf(&sb, "u%d = flag ? %s : o%d\n", ci, v, ci-1)
			fmt.Fprintf(&sb, "dbtp u%d.%s\n", ci, c.Methods[1].Name)
		}
		fmt.Fprintf(&sb, "%s.zzundefined\n", v)
	}
	return sb.String()
}

func sortedKeys(m map[string]string) []string {
	out := make([]string, 0, len(m))
	for k := range m {
		out = append(out, k)
	}
	sort.Strings(out)
	return out
}
