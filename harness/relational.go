package main

import (
	"os"
	"encoding/json"
	"fmt"
	"regexp"
	"strconv"
	"strings"
)

// ---------------------------------------------------------------------------
// shared machinery of the relational checkers (C06, C11, C13, C14, C18, C27)

// Rec is one output line of ti, split into its row and the rest.
type Rec struct {
	Hint bool   // "@file:::row:::..." line of -i
	Row  int    // -1 when the line is not a located record
	Msg  string // text after the row
	Raw  string
}

var recRe = regexp.MustCompile(`^(@?)([^:\n]+):::(\d+):::(.*)$`)

func parseOut(out string) []Rec {
	var recs []Rec
	if out == "" {
		return recs
	}
	for _, l := range strings.Split(strings.TrimSuffix(out, "\n"), "\n") {
		m := recRe.FindStringSubmatch(l)
		if m == nil {
			recs = append(recs, Rec{Row: -1, Raw: l, Msg: l})
			continue
		}
		row, _ := strconv.Atoi(m[3])
		recs = append(recs, Rec{Hint: m[1] == "@", Row: row, Msg: m[4], Raw: l})
	}
	return recs
}

func fmtRecs(recs []Rec) string {
	var sb strings.Builder
	for _, r := range recs {
		if r.Row < 0 {
			sb.WriteString(r.Raw + "\n")
			continue
		}
		p := ""
		if r.Hint {
			p = "@"
		}
		fmt.Fprintf(&sb, "%s%d:::%s\n", p, r.Row, r.Msg)
	}
	return sb.String()
}

// mapRows applies f to every located record; f returns (newRow, keep).
func mapRows(recs []Rec, f func(row int) (int, bool)) []Rec {
	var out []Rec
	for _, r := range recs {
		if r.Row < 0 {
			out = append(out, r)
			continue
		}
		nr, keep := f(r.Row)
		if !keep {
			continue
		}
		r.Row = nr
		out = append(out, r)
	}
	return out
}

// relRun executes one program; ok=false when the run crashed or hung (those
// are C01/C02's subject and make the relation unjudgeable).
func relRun(c *CheckCtx, rn Runner, e *Exec) (string, bool) {
	r := rn.Run(e)
	c.Eval(1)
	if rn.IsBlackBox() {
		if r.Watchdog || r.Timeout() || r.Crashed() || r.Exit != 0 {
			return "", false
		}
		return r.Stdout, true
	}
	if !r.Normal() {
		return "", false
	}
	return r.Stdout, true
}

// exploreThenJudge runs a judge in-process and confirms a finding on the
// black-box binary; only confirmed findings are returned.
func exploreThenJudge(c *CheckCtx, s *Slot, judge func(rn Runner) *Violation) *Violation {
	// a fixed share of the cases is judged on the plain binary directly: the
	// in-process driver restates the round loop of main(), so a change there is
	// only visible in a real process
	every := c.bbEvery
	if every == 0 {
		every = 14
	}
	if n := c.caseCounter.Add(1); n%int64(every) == 0 || c.Eng.B.Degraded {
		c.Event("cases_judged_blackbox_directly", 1)
		return judge(s.BlackBox())
	}
	v := judge(s.InProc())
	if v == nil {
		return nil
	}
	c.Event("candidates_inprocess", 1)
	bv := judge(s.BlackBox())
	if bv == nil {
		c.Event("driver_divergence", 1)
		return nil
	}
	return bv
}

// msgTemplate abstracts a message for signatures: identifiers, numbers and
// quoted names are replaced.
var quotedRe = regexp.MustCompile(`'[^']*'`)
var identRe = regexp.MustCompile(`[A-Za-z_][A-Za-z0-9_]*[?!]?`)

var templateKeep = map[string]bool{
	"instance": true, "class": true, "method": true, "is": true, "not": true, "defined": true, "for": true, "type": true, "mismatch": true,
	"expected": true, "but": true, "got": true, "too": true, "few": true, "many": true, "arguments": true, "bind": true, "output": true,
	"Integer": true, "String": true, "Float": true, "Symbol": true, "NilClass": true, "Bool": true, "Array": true, "Hash": true, "Union": true,
	"Unknown": true, "untyped": true, "Range": true, "Block": true, "private": true, "protected": true, "public": true, "syntax": true, "error": true,
	"i": true, "c": true, "undefined": true, "variable": true, "constant": true, "read": true, "only": true, "Object": true, "Class": true,
}

var sigHintRe = regexp.MustCompile(`^\(.*\) -> .* \[[ic]/(public|private|protected)\]$`)

func msgTemplate(msg string) string {
	if m := sigHintRe.FindStringSubmatch(msg); m != nil {
		return "signature-hint[" + m[1] + "]"
	}
	msg = quotedRe.ReplaceAllString(msg, "'_'")
	msg = digitsRe.ReplaceAllString(msg, "N")
	msg = identRe.ReplaceAllStringFunc(msg, func(w string) string {
		if templateKeep[w] {
			return w
		}
		return "_"
	})
	if len(msg) > 70 {
		msg = msg[:70]
	}
	return msg
}

// diffTemplate describes the first difference between two record lists.
func diffTemplate(want, got []Rec) string {
	for i := 0; i < len(want) || i < len(got); i++ {
		var w, g *Rec
		if i < len(want) {
			w = &want[i]
		}
		if i < len(got) {
			g = &got[i]
		}
		switch {
		case w != nil && g != nil && w.Row == g.Row && w.Hint == g.Hint && w.Msg == g.Msg:
			continue
		case w != nil && g != nil && w.Msg == g.Msg && w.Hint == g.Hint:
			return "row-differs[" + msgTemplate(w.Msg) + "]"
		case w != nil && g != nil && w.Row == g.Row:
			return "message-differs[" + msgTemplate(w.Msg) + " => " + msgTemplate(g.Msg) + "]"
		case w != nil && g == nil:
			return "missing[" + msgTemplate(w.Msg) + "]"
		case w == nil:
			return "extra[" + msgTemplate(g.Msg) + "]"
		default:
			// decide whether a record was lost or gained
			if i+1 < len(got) && got[i+1].Msg == w.Msg {
				return "extra[" + msgTemplate(g.Msg) + "]"
			}
			if i+1 < len(want) && want[i+1].Msg == g.Msg {
				return "missing[" + msgTemplate(w.Msg) + "]"
			}
			return "differs[" + msgTemplate(w.Msg) + " => " + msgTemplate(g.Msg) + "]"
		}
	}
	return ""
}

func sameRecs(a, b []Rec) bool {
	if len(a) != len(b) {
		return false
	}
	for i := range a {
		if a[i].Row != b[i].Row || a[i].Hint != b[i].Hint || a[i].Msg != b[i].Msg {
			return false
		}
	}
	return true
}

// ----- conservative statement-boundary scanner for corpus programs

// safeBoundaries returns 1-based line numbers L such that a blank or comment
// line can be inserted before line L without joining or splitting statements
// (bracket depth 0, previous line not continued, not inside strings, heredocs
// or =begin blocks, next line not a leading-dot continuation).
func safeBoundaries(src string) []int {
	lines := strings.Split(src, "\n")
	var out []int
	depth := 0
	inHeredoc := ""
	inBegin := false
	prevContinues := false
	for i, line := range lines {
		trim := strings.TrimSpace(line)
		if inBegin {
			if strings.HasPrefix(line, "=end") {
				inBegin = false
			}
			prevContinues = false
			continue
		}
		if inHeredoc != "" {
			if trim == inHeredoc {
				inHeredoc = ""
			}
			prevContinues = false
			continue
		}
		ok := depth == 0 && !prevContinues && i > 0 && !strings.HasPrefix(trim, ".") && !strings.HasPrefix(trim, "&.") && trim != ""
		if ok && i < len(lines)-1 {
			out = append(out, i+1)
		}
		if strings.HasPrefix(line, "=begin") {
			inBegin = true
			continue
		}
		// scan the line
		quote := byte(0)
		unsafe := false
		for k := 0; k < len(line); k++ {
			ch := line[k]
			if quote != 0 {
				if ch == '\\' {
					k++
				} else if ch == quote {
					quote = 0
				}
				continue
			}
			switch ch {
			case '"', '\'', '`':
				quote = ch
			case '#':
				k = len(line)
			case '(', '[', '{':
				depth++
			case ')', ']', '}':
				if depth > 0 {
					depth--
				}
			case '<':
				if strings.HasPrefix(line[k:], "<<~") || strings.HasPrefix(line[k:], "<<-") || (strings.HasPrefix(line[k:], "<<") && k+2 < len(line) && line[k+2] >= 'A' && line[k+2] <= 'Z') {
					m := regexp.MustCompile(`<<[~-]?([A-Z_]+)`).FindStringSubmatch(line[k:])
					if m != nil {
						inHeredoc = m[1]
					}
				}
			case '%', '/', '?':
				unsafe = true
			}
		}
		if quote != 0 {
			// multi-line string: give up on the rest of this program
			return out
		}
		code := trim
		if idx := strings.Index(code, " #"); idx >= 0 && !unsafe {
			code = strings.TrimSpace(code[:idx])
		}
		prevContinues = false
		for _, suf := range []string{",", "\\", "|", "&&", "||", "+", "-", "*", "=", ".", "&.", "(", "[", "{", "and", "or", "not", "?", ":", "<<", "<", ">"} {
			if strings.HasSuffix(code, suf) {
				prevContinues = true
			}
		}
	}
	return out
}

// ----- C06: layout changes only shift rows

type layoutCase struct {
	Source  string   `json:"source"`
	Edit    string   `json:"edit"`    // blank, comment, two, drop-final-newline, double-final-newline, widen-string
	Line    int      `json:"line"`    // 1-based line the edit applies before/at
	Mode    []string `json:"mode"`    // extra argv
	Origin  string   `json:"origin"`  // corpus | generated
	Context string   `json:"context"` // what the line after the boundary starts with
	Text    string   `json:"text"`    // the inserted line (blank: whitespace only; comment: starts with #)
}

var strLitRe = regexp.MustCompile(`"([A-Za-z][A-Za-z ]{2,})"`)

// applyLayout returns the edited source, the first shifted row and the shift.
func applyLayout(lc *layoutCase) (edited string, from int, k int, ok bool) {
	lines := strings.Split(lc.Source, "\n")
	switch lc.Edit {
	case "blank", "comment", "two", "block-comment":
		if lc.Line < 1 || lc.Line > len(lines) {
			return "", 0, 0, false
		}
		ins := []string{""}
		if lc.Text != "" || lc.Edit == "blank" {
			ins = []string{lc.Text}
		}
		switch {
		case lc.Edit == "comment" && lc.Text == "":
			ins = []string{"  # layout comment"}
		case lc.Edit == "two":
			ins = []string{lc.Text, "# another comment"}
		case lc.Edit == "block-comment":
			// =begin/=end stand at the start of their lines, whatever the nesting
			ins = []string{"=begin", lc.Text, "=end"}
		}
		out := append([]string{}, lines[:lc.Line-1]...)
		out = append(out, ins...)
		out = append(out, lines[lc.Line-1:]...)
		return strings.Join(out, "\n"), lc.Line, len(ins), true
	case "drop-final-newline":
		if !strings.HasSuffix(lc.Source, "\n") || strings.HasSuffix(lc.Source, "\n\n") {
			return "", 0, 0, false
		}
		return strings.TrimSuffix(lc.Source, "\n"), 1 << 30, 0, true
	case "double-final-newline":
		if !strings.HasSuffix(lc.Source, "\n") {
			return "", 0, 0, false
		}
		return lc.Source + "\n", 1 << 30, 0, true
	case "widen-string", "continue-string":
		if lc.Line < 1 || lc.Line > len(lines) {
			return "", 0, 0, false
		}
		l := lines[lc.Line-1]
		loc := strLitRe.FindStringSubmatchIndex(l)
		if loc == nil {
			return "", 0, 0, false
		}
		mid := loc[2] + (loc[3]-loc[2])/2
		nl := "\n"
		if lc.Edit == "continue-string" {
			// a backslash at the line end: the literal goes on in the next line
			nl = "\\\n"
		}
		lines[lc.Line-1] = l[:mid] + nl + l[mid:]
		return strings.Join(lines, "\n"), lc.Line, 1, true
	}
	return "", 0, 0, false
}

func judgeLayout(c *CheckCtx, rn Runner, lc *layoutCase) *Violation {
	edited, from, k, ok := applyLayout(lc)
	if !ok {
		return nil
	}
	argv := append([]string{targetFile}, lc.Mode...)
	o1, ok1 := relRun(c, rn, &Exec{Files: map[string]string{targetFile: lc.Source}, Argv: argv})
	o2, ok2 := relRun(c, rn, &Exec{Files: map[string]string{targetFile: edited}, Argv: argv})
	if !ok1 || !ok2 {
		c.Event("skipped_crash_or_hang", 1)
		return nil
	}
	base := parseOut(o1)
	got := parseOut(o2)
	if len(base) > 0 {
		c.Event("pairs_with_output", 1)
		c.Nontrivial(lc.Edit + "\x00" + strings.Join(lc.Mode, " ") + "\x00" + fmt.Sprint(lc.Line) + "\x00" + lc.Source)
	}
	want := mapRows(base, func(r int) (int, bool) {
		if r >= from {
			return r + k, true
		}
		return r, true
	})
	if sameRecs(want, got) {
		return nil
	}
	if lc.Edit == "widen-string" || lc.Edit == "continue-string" {
		// records located on the widened line itself may stay or move
		alt := mapRows(base, func(r int) (int, bool) {
			if r > from {
				return r + k, true
			}
			return r, true
		})
		if sameRecs(alt, got) {
			return nil
		}
		// mixed: accept any assignment for rows == from
		if sameRecsLoose(base, got, from, k) {
			return nil
		}
	}
	sig := "layout:" + lc.Edit + ":" + lc.Context + ":" + diffTemplate(want, got)
	return &Violation{Sig: sig, Kind: "layout", Case: mustJSON(lc),
		What:     fmt.Sprintf("layout edit `%s` at line %d (%s program, argv %v) changes more than rows", lc.Edit, lc.Line, lc.Origin, lc.Mode),
		Expected: clip(fmtRecs(want), 3000), Observed: clip(fmtRecs(got), 3000)}
}

func sameRecsLoose(base, got []Rec, from, k int) bool {
	if len(base) != len(got) {
		return false
	}
	for i := range base {
		b, g := base[i], got[i]
		if b.Hint != g.Hint || b.Msg != g.Msg {
			return false
		}
		switch {
		case b.Row < from:
			if g.Row != b.Row {
				return false
			}
		case b.Row == from:
			if g.Row != b.Row && g.Row != b.Row+k {
				return false
			}
		default:
			if g.Row != b.Row+k {
				return false
			}
		}
	}
	return true
}

// lineContext names what follows a boundary (first word of the next line and
// of the previous one) - the feature a layout defect keys on.
func lineContext(src string, line int) string {
	lines := strings.Split(src, "\n")
	word := func(i int) string {
		if i < 0 || i >= len(lines) {
			return "-"
		}
		f := strings.Fields(lines[i])
		if len(f) == 0 {
			return "blank"
		}
		w := identRe.FindString(f[0])
		switch w {
		case "if", "unless", "elsif", "else", "end", "def", "class", "module", "case", "when", "in", "while", "until", "for", "do", "begin", "rescue", "ensure", "return", "private", "protected", "dbtp", "p", "puts":
			return w
		case "":
			return "punct"
		}
		return "stmt"
	}
	return "after-" + word(line-2) + "-before-" + word(line-1)
}

func init() {
	register(&Check{ID: "C06", Title: "layout changes only shift rows",
		Replay: func(c *CheckCtx, s *Slot, v *Violation) *Violation {
			var lc layoutCase
			if json.Unmarshal(v.Case, &lc) != nil {
				return nil
			}
			return judgeLayout(c, s.BlackBox(), &lc)
		},
		Run: func(c *CheckCtx) {
			c.rule = "pairs (program, layout edit): blank line / comment-only line / two such lines / a three-line =begin ... =end block comment inserted at a statement boundary (generated programs: every boundary the AST offers, at any nesting depth, including before else/end; corpus programs: boundaries from a conservative line scanner), final newline removed or doubled, a string literal widened by a real newline or by a backslash-newline continuation; adjacency family: 52 complete statements (also `x rescue nil`, and/or/not, lambdas, %w, &., ||=) x 28 following statements whose first token could continue an expression (if/unless/while/until, `[`, `(`, `!`, literals) plus 16 body headers (in/when/else/rescue/do/def ...) x the same 28, at top level and inside a method, and 16 x 11 pairs inside a class body (attr_*, include, visibility keywords, definitions of every form followed by if/unless/while/blocks/definitions), the line inserted exactly between the two; modes plain and -i. Oracle: out(edited) == out(original) with rows at or after the edit shifted by the number of added lines. distinct_nontrivial = distinct (edit, mode, line, program) pairs whose original run printed at least one located record"
			c.assumptions = []string{"pairs in which either run crashes or hangs are skipped (C01/C02)", "for a widened string literal, records located on the literal's own line may stay or move"}
			items := Corpus()
			var jobs []*layoutCase
			r := c.RNG.Sub(6)
			modes := [][]string{{}, {"-i"}}
			edits := []string{"blank", "comment", "two", "blank", "comment", "two", "block-comment"}
			blockTexts := []string{"text of a block comment", "end", "  def x", "", "x = ", "=begin", "# inside", "\"unterminated"}
			blankTexts := []string{"", "", "   ", "\t", " \t "}
			commentTexts := []string{"#", "  #", "# c", "#c", "##", "  # layout comment", "# ti-doc: note", "# ti-for-llm: note", "#{", "# 'quote", "# \"dq", "# end", "# def x", "#\\", "# =begin", "#!x"}
			textFor := func(edit string) string {
				switch edit {
				case "blank":
					return Pick(r, blankTexts)
				case "comment":
					return Pick(r, commentTexts)
				case "block-comment":
					return Pick(r, blockTexts)
				}
				return Pick(r, append(append([]string{}, blankTexts...), commentTexts...))
			}
			// corpus programs
			nCorpus := c.N(60, len(items))
			nGen := c.N(60, 1500)
			if os.Getenv("VERIF_C06_FAMILY") == "adjacency" {
				// development aid: only the adjacency family
				nCorpus, nGen = 0, 0
			}
			for k := 0; k < nCorpus; k++ {
				it := items[k%len(items)]
				if c.Quick() {
					it = Pick(r, items)
				}
				if len(it.Args) > 0 && it.Args[0] != "-i" {
					continue
				}
				bs := safeBoundaries(it.Source)
				perProg := c.N(4, len(bs))
				for q := 0; q < perProg && len(bs) > 0; q++ {
					b := bs[q%len(bs)]
					if c.Quick() {
						b = Pick(r, bs)
					}
					ed := Pick(r, edits)
					jobs = append(jobs, &layoutCase{Source: it.Source, Edit: ed, Text: textFor(ed), Line: b, Mode: Pick(r, modes), Origin: "corpus", Context: lineContext(it.Source, b)})
				}
				for _, e := range []string{"drop-final-newline", "double-final-newline"} {
					jobs = append(jobs, &layoutCase{Source: it.Source, Edit: e, Mode: Pick(r, modes), Origin: "corpus", Context: "eof"})
				}
			}
			// generated programs: every AST boundary
			for k := 0; k < nGen; k++ {
				p := genProgram(r, GenOpts{Classes: true, MultiLine: true, Stmts: 5 + r.Intn(10)})
				rd := p.Render(nil)
				src := rd.Text()
				var bs []int
				for i, l := range rd.Lines {
					if (l.StartsAt != "" || l.BodyEnd != "") && i > 0 && !l.InLiteral {
						bs = append(bs, i+1)
					}
				}
				perProg := c.N(5, len(bs))
				for q := 0; q < perProg && len(bs) > 0; q++ {
					b := bs[q%len(bs)]
					if c.Quick() {
						b = Pick(r, bs)
					}
					ed := Pick(r, edits)
					jobs = append(jobs, &layoutCase{Source: src, Edit: ed, Text: textFor(ed), Line: b, Mode: Pick(r, modes), Origin: "generated", Context: lineContext(src, b)})
				}
				for i, l := range rd.Lines {
					if strLitRe.MatchString(l.Text) && !l.InLiteral && r.Chance(1, 2) {
						jobs = append(jobs, &layoutCase{Source: src, Edit: Pick(r, []string{"widen-string", "widen-string", "continue-string"}), Line: i + 1, Mode: Pick(r, modes), Origin: "generated", Context: "string-literal"})
					}
				}
				for _, e := range []string{"drop-final-newline", "double-final-newline"} {
					jobs = append(jobs, &layoutCase{Source: src, Edit: e, Mode: Pick(r, modes), Origin: "generated", Context: "eof"})
				}
			}
			// adjacency family: statement pairs whose second member could continue
			// the first (c06adj.go); thorough enumerates every pair
			adj := func(ai, hi, bi int, top bool) {
				src, b, ctx := buildAdjacency(ai, hi, bi, top)
				ed := Pick(r, edits)
				jobs = append(jobs, &layoutCase{Source: src, Edit: ed, Text: textFor(ed), Line: b, Mode: Pick(r, modes), Origin: "adjacency", Context: ctx})
			}
			adjClass := func(ai, bi int) {
				src, b, ctx := buildClassAdjacency(ai, bi)
				ed := Pick(r, edits)
				jobs = append(jobs, &layoutCase{Source: src, Edit: ed, Text: textFor(ed), Line: b, Mode: Pick(r, modes), Origin: "adjacency", Context: ctx})
			}
			if c.Quick() {
				for k := 0; k < 80; k++ {
					adjClass(r.Intn(len(adjClassFirst)), r.Intn(len(adjClassSecond)))
				}
			} else {
				for ai := range adjClassFirst {
					for bi := range adjClassSecond {
						adjClass(ai, bi)
						adjClass(ai, bi)
					}
				}
			}
			if c.Quick() {
				for k := 0; k < 300; k++ {
					if r.Chance(1, 3) {
						adj(0, r.Intn(len(adjHeaders)), r.Intn(len(adjSecond)), false)
					} else {
						adj(r.Intn(len(adjFirst)), -1, r.Intn(len(adjSecond)), r.Chance(1, 4))
					}
				}
			} else {
				for bi := range adjSecond {
					for ai := range adjFirst {
						adj(ai, -1, bi, false)
						adj(ai, -1, bi, true)
					}
					for hi := range adjHeaders {
						adj(0, hi, bi, false)
						adj(0, hi, bi, false)
					}
				}
			}
			c.Extra("pairs", len(jobs))
			c.Eng.Map(len(jobs), func(s *Slot, i int) {
				lc := jobs[i]
				if i%401 == 0 {
					c.Sample(map[string]any{"edit": lc.Edit, "line": lc.Line, "mode": lc.Mode, "origin": lc.Origin, "context": lc.Context, "source": clip(lc.Source, 300)})
				}
				if v := exploreThenJudge(c, s, func(rn Runner) *Violation { return judgeLayout(c, rn, lc) }); v != nil {
					c.Report(v)
				}
			})
		}})
}
