package main

import (
	"bufio"
	"encoding/json"
	"fmt"
	"os"
	"path/filepath"
	"regexp"
	"strconv"
	"strings"
)

// ---------------------------------------------------------------------------
// C01 / C02 / C04: process-boundary monitors over hostile inputs

const targetFile = "main.rb"

type robustCase struct {
	Exec   *Exec  `json:"exec"`
	Family string `json:"family"`
}

// anomaly classes of one execution record
const (
	anNone      = ""
	anCrash     = "crash"
	anHang      = "hang"
	anMalformed = "malformed"
)

var (
	diagLineRe   = regexp.MustCompile(`^` + regexp.QuoteMeta(targetFile) + `:::\d+:::.*$`)
	hintLineRe   = regexp.MustCompile(`^@` + regexp.QuoteMeta(targetFile) + `:::\d+:::.*$`)
	pctLineRe    = regexp.MustCompile(`^%[^\n]*$`)
	atClassRe    = regexp.MustCompile(`^@[^\n]*$`)
	dollarLineRe = regexp.MustCompile(`^\$[^\n]*$`)
)

// lineGrammar returns the first stdout line that is not allowed in the given
// mode ("" when all lines are fine).
func lineGrammar(mode string, stdout string) (bad string, idx int) {
	if stdout == "" {
		return "", -1
	}
	lines := strings.Split(strings.TrimSuffix(stdout, "\n"), "\n")
	for i, l := range lines {
		ok := false
		switch mode {
		case "plain":
			ok = diagLineRe.MatchString(l)
		case "-i":
			ok = diagLineRe.MatchString(l) || hintLineRe.MatchString(l)
		case "--suggest", "--hover":
			switch {
			case diagLineRe.MatchString(l):
				ok = true
			case pctLineRe.MatchString(l) && strings.Count(l, ":::") == 2:
				ok = true
			case pctLineRe.MatchString(l) && strings.Count(l, ":::") == 1:
				// class list offered for a constant receiver: %Name:::Name
				parts := strings.SplitN(l[1:], ":::", 2)
				ok = parts[0] == parts[1] && parts[0] != ""
			}
		case "--define":
			switch {
			case diagLineRe.MatchString(l):
				ok = true
			case strings.HasPrefix(l, "%"):
				ok = strings.Count(l, ":::") == 4
			case strings.HasPrefix(l, "@"):
				ok = strings.Count(l, ":::") == 1
			case strings.HasPrefix(l, "$"):
				ok = strings.Count(l, ":::") == 3
			}
		}
		if !ok {
			return l, i
		}
	}
	return "", -1
}

func modeOf(argv []string) string {
	for _, a := range argv[1:] {
		switch a {
		case "-i", "--suggest", "--hover", "--define":
			return a
		}
	}
	return "plain"
}

// classify gives the anomaly class of a record under the C01/C04 line
// grammar.
func classify(e *Exec, r *Result) string {
	if r.BlackBox {
		switch {
		case r.Watchdog:
			return anNone // inconclusive, handled by caller
		case r.Timeout():
			return anHang
		case r.Crashed() || r.Exit != 0:
			return anCrash
		}
	} else {
		switch {
		case r.Budget != "" || r.Watchdog:
			return anHang
		case r.Died || r.Panic != "" || r.Exit != 0:
			return anCrash
		}
	}
	if bad, _ := lineGrammar(modeOf(e.Argv), r.Stdout); bad != "" {
		return anMalformed
	}
	return anNone
}

// ----- signatures

var frameRe = regexp.MustCompile(`(?m)^(\S[^\n]*)\([^\n()]*\)\n\t([^\s:]+):(\d+)`)

type frame struct {
	Func string
	File string
	Line int
}

func parseFrames(stack string) []frame {
	var out []frame
	for _, m := range frameRe.FindAllStringSubmatch(stack, -1) {
		ln, _ := strconv.Atoi(m[3])
		fn := m[1]
		if strings.HasPrefix(fn, "created by ") || strings.HasPrefix(fn, "panic") {
			continue
		}
		out = append(out, frame{Func: fn, File: m[2], Line: ln})
	}
	return out
}

func isProductFrame(f frame) bool {
	return (strings.HasPrefix(f.Func, "ti/") || strings.HasPrefix(f.Func, "main.")) &&
		!strings.HasPrefix(f.Func, "ti/verifhook.") && !strings.HasPrefix(f.Func, "main.verif")
}

var srcCache = map[string][]string{}
var srcMu = make(chan struct{}, 1)

func sourceLine(file string, line int) string {
	srcMu <- struct{}{}
	defer func() { <-srcMu }()
	lines, ok := srcCache[file]
	if !ok {
		data, err := os.ReadFile(file)
		if err == nil {
			lines = strings.Split(string(data), "\n")
		}
		srcCache[file] = lines
	}
	if line-1 < len(lines) && line >= 1 {
		return strings.Join(strings.Fields(lines[line-1]), " ")
	}
	return "?"
}

var digitsRe = regexp.MustCompile(`\d+`)
var hexRe = regexp.MustCompile(`0x[0-9a-f]+`)

func normPanic(msg string) string {
	msg = strings.TrimSpace(strings.SplitN(msg, "\n", 2)[0])
	msg = strings.TrimPrefix(msg, "panic: ")
	msg = strings.TrimSuffix(msg, " [recovered]")
	msg = hexRe.ReplaceAllString(msg, "X")
	msg = digitsRe.ReplaceAllString(msg, "N")
	if i := strings.Index(msg, "interface conversion:"); i >= 0 {
		msg = "interface conversion"
	}
	if len(msg) > 80 {
		msg = msg[:80]
	}
	return msg
}

// leaf predicates/accessors of base.T are skipped when naming the
// responsible call site (both are kept in the signature).
func isLeaf(f frame) bool {
	return strings.HasPrefix(f.Func, "ti/base.(*T).") || strings.HasPrefix(f.Func, "ti/base.T.")
}

func crashSignature(panicMsg, stack string) string {
	frames := parseFrames(stack)
	var leaf, site *frame
	for i := range frames {
		f := &frames[i]
		if !isProductFrame(*f) {
			continue
		}
		if isLeaf(*f) {
			if leaf == nil {
				leaf = f
			}
			continue
		}
		site = f
		break
	}
	sig := "crash:" + normPanic(panicMsg)
	if leaf != nil {
		sig += ":" + shortFunc(leaf.Func)
	}
	if site != nil {
		sig += ":" + shortFunc(site.Func) + ":" + sourceLine(site.File, site.Line)
	} else if strings.Contains(stack, "stack overflow") || strings.Contains(panicMsg, "stack") {
		sig += ":stack"
	}
	return sig
}

func shortFunc(fn string) string {
	fn = strings.TrimPrefix(fn, "ti/")
	return fn
}

var hangSkip = []string{
	"ti/lexer/reader.(*LexerReader).Read", "ti/lexer.(*Lexer).skipSpace", "ti/lexer.(*Lexer).Advance",
	"ti/parser.(*Parser).getToken", "ti/parser.(*Parser).Read", "ti/parser.(*Parser).ReadWithCheck",
	"ti/parser.(*Parser).ReadAhead", "ti/parser.(*Parser).ReadTwice", "ti/parser.(*Parser).SkipNewline", "ti/parser.(*Parser).Skip",
}

func hangSignature(kind, stack string) string {
	for _, f := range parseFrames(stack) {
		if !isProductFrame(f) {
			continue
		}
		skip := false
		for _, s := range hangSkip {
			if f.Func == s {
				skip = true
			}
		}
		if skip {
			continue
		}
		return "hang:" + kind + ":" + shortFunc(f.Func)
	}
	return "hang:" + kind + ":?"
}

// stackOverflowSignature names the recursion from a fatal stack-overflow
// trace (first product frame).
func overflowFunc(trace string) string {
	for _, f := range parseFrames(trace) {
		if isProductFrame(f) {
			return shortFunc(f.Func)
		}
	}
	return "?"
}

var wordRe = regexp.MustCompile(`[A-Za-z0-9_]+`)

func malformedSignature(mode, line string) string {
	shape := wordRe.ReplaceAllString(line, "w")
	if len(shape) > 60 {
		shape = shape[:60]
	}
	return "line:" + mode + ":" + shape
}

// ----- judge

// judgeRobust runs one case in-process, and on any anomaly re-judges it on
// the black-box binary. It returns the confirmed violation for the asked
// property (C01/C04: crash or malformed output; C02: hang), or nil.
func judgeRobust(c *CheckCtx, s *Slot, rc *robustCase, want string, forceBB bool) *Violation {
	e := rc.Exec
	mode := modeOf(e.Argv)
	var ip *Result
	an := anNone
	if !forceBB {
		ip = s.InProc().Run(e)
		c.Eval(1)
		an = classify(e, ip)
		if an == anNone {
			c.Event("clean_inprocess", 1)
			if ip.Stdout != "" {
				c.Nontrivial(strings.Join(e.Argv, " ") + "\x00" + e.Files[targetFile])
			}
			return nil
		}
		c.Event("candidate_"+an, 1)
		if an == anHang && want == "C01" {
			c.Event("hang_left_to_C02", 1)
			return nil
		}
		if an == anHang {
			// confirm at most two candidates per spinning site on the black-box binary
			sig := inprocHangSig(ip)
			if !c.firstFew("hangsig:"+sig, 2) {
				c.Event("hang_candidate_same_site_not_reconfirmed", 1)
				return nil
			}
		}
	}
	// black-box judgement
	bb := s.BlackBox().Run(e)
	if forceBB {
		c.Eval(1)
	}
	if bb.Watchdog {
		c.Event("blackbox_harness_watchdog", 1)
		if want == "C02" {
			// a run that does not even stop at the product's watchdog: still decided by `timeout` output only
		}
		return nil
	}
	ban := classify(e, bb)
	if forceBB && ban == anNone {
		c.Event("clean_blackbox", 1)
		if bb.Stdout != "" {
			c.Nontrivial(strings.Join(e.Argv, " ") + "\x00" + e.Files[targetFile])
		}
		return nil
	}
	if ban == anNone {
		c.Event("driver_divergence_or_finite", 1)
		return nil
	}
	c.Nontrivial(strings.Join(e.Argv, " ") + "\x00" + e.Files[targetFile])
	caseJSON := mustJSON(&robustCase{Exec: e.forReplay(), Family: rc.Family})
	switch ban {
	case anCrash:
		if want == "C02" {
			c.Event("other_property_crash", 1)
			return nil
		}
		sig := crashSignature(firstPanicLine(bb.Stderr), bb.Stderr)
		if strings.Contains(bb.Stderr, "stack overflow") {
			sig = "crash:stack overflow:" + overflowFunc(bb.Stderr)
		}
		if bb.Exit != 2 && !strings.Contains(bb.Stderr, "panic") && !strings.Contains(bb.Stderr, "fatal error") {
			sig = fmt.Sprintf("exit:%d:%s", bb.Exit, malformedSignature(mode, strings.SplitN(bb.Stdout+bb.Stderr, "\n", 2)[0]))
		}
		return &Violation{Sig: sig, Kind: "robust", Case: caseJSON,
			What:     fmt.Sprintf("ti %s exits with status %d: %s (family %s)", strings.Join(e.Argv, " "), bb.Exit, firstPanicLine(bb.Stderr), rc.Family),
			Observed: tail(bb.Stderr, 3000)}
	case anMalformed:
		if want == "C02" {
			return nil
		}
		bad, _ := lineGrammar(mode, bb.Stdout)
		return &Violation{Sig: malformedSignature(mode, bad), Kind: "robust", Case: caseJSON,
			What:     fmt.Sprintf("ti %s prints a line that is not a well-formed record: %q (family %s)", strings.Join(e.Argv, " "), bad, rc.Family),
			Observed: tail(bb.Stdout, 3000)}
	case anHang:
		if want == "C01" {
			c.Event("other_property_hang", 1)
			return nil
		}
		// both keys: logical evidence in-process AND 3/3 `timeout` on an idle core
		if ip == nil {
			ip = s.InProc().Run(e)
		}
		logical := ip.Budget != "" || (ip.Died && !ip.Watchdog)
		if !logical && !c.Eng.B.Degraded {
			// no logical evidence (slow machine, or a finite but expensive analysis
			// that only the harness wall clock stopped): never a verdict
			c.Event("inconclusive_slow", 1)
			return nil
		}
		ok, _ := s.ConfirmTimeout(e)
		if !ok {
			c.Event("timeout_not_reproduced_3of3", 1)
			return nil
		}
		sig := inprocHangSig(ip)
		return &Violation{Sig: sig, Kind: "robust", Case: caseJSON,
			What:     fmt.Sprintf("ti %s prints `timeout` (3 of 3 idle reruns); logical watchdog: %s (family %s)", strings.Join(e.Argv, " "), sig, rc.Family),
			Observed: tail(ip.Stack, 3000)}
	}
	return nil
}

func inprocHangSig(ip *Result) string {
	switch {
	case ip.Budget != "":
		return hangSignature(ip.Budget, ip.Stack)
	case ip.Died && strings.Contains(ip.DiedMsg, "stack overflow"):
		return "hang:stack:" + overflowFunc(ip.DiedMsg)
	case ip.Died:
		return "hang:stall"
	}
	return "hang:?"
}

func firstPanicLine(stderr string) string {
	sc := bufio.NewScanner(strings.NewReader(stderr))
	for sc.Scan() {
		l := sc.Text()
		if strings.HasPrefix(l, "panic:") || strings.HasPrefix(l, "fatal error:") {
			return l
		}
	}
	return strings.SplitN(stderr, "\n", 2)[0]
}

func tail(s string, n int) string {
	if len(s) > n {
		return s[:n] + "\n..."
	}
	return s
}

func replayRobust(want string) func(c *CheckCtx, s *Slot, v *Violation) *Violation {
	return func(c *CheckCtx, s *Slot, v *Violation) *Violation {
		var rc robustCase
		if json.Unmarshal(v.Case, &rc) != nil || rc.Exec == nil {
			return nil
		}
		rc.Exec.afterLoad()
		return judgeRobust(c, s, &rc, want, false)
	}
}

// ----- workload

type family struct {
	name string
	n    int
	gen  func(r *RNG, i int) *robustCase
}

func srcExec(src string, args ...string) *Exec {
	return &Exec{Files: map[string]string{targetFile: src}, Argv: append([]string{targetFile}, args...)}
}

func robustFamilies(c *CheckCtx, modes [][]string) []family {
	items := Corpus()
	hostile := hostileStrings()
	pickMode := func(r *RNG) []string { return Pick(r, modes) }
	fams := []family{
		{name: "hostile", n: len(hostile) * len(modes), gen: func(r *RNG, i int) *robustCase {
			return &robustCase{Exec: srcExec(hostile[i/len(modes)], modes[i%len(modes)]...)}
		}},
		{name: "corpus-whole", n: c.N(120, len(items)*len(modes)), gen: func(r *RNG, i int) *robustCase {
			if c.Quick() {
				return &robustCase{Exec: srcExec(Pick(r, items).Source, pickMode(r)...)}
			}
			return &robustCase{Exec: srcExec(items[i/len(modes)].Source, modes[i%len(modes)]...)}
		}},
		{name: "corpus-prefix", n: c.N(2400, 60000), gen: func(r *RNG, i int) *robustCase {
			it := items[i%len(items)]
			return &robustCase{Exec: srcExec(cutPrefix(r, it.Source), pickMode(r)...)}
		}},
		{name: "corpus-token-mutation", n: c.N(1200, 40000), gen: func(r *RNG, i int) *robustCase {
			it := items[i%len(items)]
			return &robustCase{Exec: srcExec(mutateTokens(r, it.Source), pickMode(r)...)}
		}},
		{name: "mutated-prefix", n: c.N(400, 15000), gen: func(r *RNG, i int) *robustCase {
			it := items[i%len(items)]
			return &robustCase{Exec: srcExec(cutPrefix(r, mutateTokens(r, it.Source)), pickMode(r)...)}
		}},
		{name: "stray-quote", n: c.N(500, 12000), gen: func(r *RNG, i int) *robustCase {
			// a quote that was just typed and is not closed yet swallows the text up
			// to the next quote: names and arguments that span several lines
			src := items[i%len(items)].Source
			if i%3 == 0 {
				src = genProgram(r, GenOpts{Classes: true, Stmts: 6 + r.Intn(8)}).Render(nil).Text()
			}
			q := Pick(r, []string{"\"", "'"})
			var idx []int
			for _, kw := range []string{"def ", "class ", "module ", ".", "attr_accessor ", "attr_reader ", "include ", "(", ", ", "= ", "dbtp ", ":", "::", "|", "self."} {
				for _, k := range allIndexes(src, kw) {
					idx = append(idx, k+len(kw))
				}
			}
			pos := r.Intn(len(src) + 1)
			if len(idx) > 0 && r.Chance(4, 5) {
				pos = Pick(r, idx)
			}
			return &robustCase{Exec: srcExec(src[:pos]+q+src[pos:], pickMode(r)...)}
		}},
		{name: "token-soup", n: c.N(300, 10000), gen: func(r *RNG, i int) *robustCase {
			var sb strings.Builder
			n := 1 + r.Intn(25)
			for k := 0; k < n; k++ {
				sb.WriteString(Pick(r, tokenDict))
				if r.Chance(2, 3) {
					sb.WriteString(" ")
				}
			}
			return &robustCase{Exec: srcExec(sb.String(), pickMode(r)...)}
		}},
	}
	fams = append(fams, family{name: "inheritance-lattice", n: c.N(40, 600), gen: func(r *RNG, i int) *robustCase {
		// a lattice of modules in which every level includes (or extends) both
		// modules of the level below: 2^depth paths to the bottom, 2*depth+2
		// ancestors; look-ups of present and absent methods and attributes
		depth := 4 + r.Intn(20)
		verb := Pick(r, []string{"include", "include", "extend"})
		var sb strings.Builder
		sb.WriteString("module L0a\n  attr_accessor :level\n  def base_m\n    1\n  end\nend\nmodule L0b\n  def other_m\n    \"s\"\n  end\nend\n")
		for d := 1; d <= depth; d++ {
			for _, x := range []string{"a", "b"} {
				fmt.Fprintf(&sb, "module L%d%s\n  include L%da\n  include L%db\nend\n", d, x, d-1, d-1)
			}
		}
		fmt.Fprintf(&sb, "class Top\n  %s L%da\n  %s L%db\n  def own\n    @missing_ivar\n  end\n  def own2\n    counter_zz\n  end\n  def self.own3\n    counter_zz\n  end\nend\n", verb, depth, verb, depth)
		sb.WriteString("class Sub < Top\nend\nt = Sub.new\n")
		for _, call := range []string{"t.zz_missing", "t.base_m", "t.other_m", "t.level", "t.own", "Sub.zz_missing", "Sub.base_m", "t.level = 1", "t.own2", "Sub.own3", "Top.new.own2"} {
			if r.Bool() {
				sb.WriteString("dbtp " + call + "\n")
			}
		}
		return &robustCase{Exec: srcExec(sb.String(), pickMode(r)...)}
	}})
	fams = append(fams, family{name: "size-boundary", n: c.N(120, 2400), gen: func(r *RNG, i int) *robustCase {
		// well-formed programs in which ONE thing is large: elements of a (nested)
		// literal, block parameters, arguments, parameters, keywords, union
		// members, chain links, nesting depth, overloads tried. Sizes straddle the
		// small powers of two and 10, 20, 100 where fixed-size buffers end.
		n := Pick(r, []int{7, 8, 9, 10, 11, 15, 16, 17, 19, 20, 21, 24, 31, 32, 33, 40, 63, 64, 65, 100, 128, 130})
		seq := func(k int, f func(j int) string) string {
			var xs []string
			for j := 0; j < k; j++ {
				xs = append(xs, f(j))
			}
			return strings.Join(xs, ", ")
		}
		lit := func(j int) string { return Pick(r, []string{fmt.Sprint(j), "\"s\"", "1.5", ":k", "nil"}) }
		var sb strings.Builder
		switch r.Intn(14) {
		case 0: // a nested array with n elements, block with 1-3 parameters
			fmt.Fprintf(&sb, "a = [[%s]]\na.each do |%s|\n  dbtp x\nend\ndbtp a\n", seq(n, lit), Pick(r, []string{"x", "x, y", "x, y, z", "x, *y"}))
		case 1: // an array of n small arrays
			fmt.Fprintf(&sb, "a = [%s]\na.each do |x, y|\n  dbtp x\n  dbtp y\nend\n", seq(n, func(j int) string { return "[" + lit(j) + ", " + lit(j+1) + "]" }))
		case 2: // a hash with n pairs
			fmt.Fprintf(&sb, "h = {%s}\nh.each do |k, v|\n  dbtp v\nend\ndbtp h[:k3]\n", seq(n, func(j int) string { return fmt.Sprintf("k%d: %s", j, lit(j)) }))
		case 3: // a block with n parameters
			fmt.Fprintf(&sb, "[[1, 2]].each do |%s|\n  dbtp p0\nend\n", seq(n, func(j int) string { return fmt.Sprintf("p%d", j) }))
		case 4: // a method with n parameters, called with n arguments
			fmt.Fprintf(&sb, "def wide(%s)\n  dbtp p0\n  p%d\nend\ndbtp wide(%s)\nwide(1)\n", seq(n, func(j int) string { return fmt.Sprintf("p%d", j) }), n-1, seq(n, lit))
		case 5: // n keywords
			fmt.Fprintf(&sb, "def kws(%s)\n  k0\nend\ndbtp kws(%s)\n", seq(n, func(j int) string { return fmt.Sprintf("k%d: %d", j, j) }), seq(n, func(j int) string { return fmt.Sprintf("k%d: %s", n-1-j, lit(j)) }))
		case 6: // n arguments to configured methods
			fmt.Fprintf(&sb, "a = [1]\na.push(%s)\ndbtp a\nputs(%s)\n\"s\".upcase(%s)\n", seq(n, lit), seq(n, lit), seq(n, lit))
		case 7: // a splat of an n-element array, a rest parameter receiving n values
			fmt.Fprintf(&sb, "def rest(*xs)\n  dbtp xs\n  xs\nend\nv = [%s]\ndbtp rest(*v)\ndbtp rest(%s)\n", seq(n, lit), seq(n, lit))
		case 8: // a chain of n calls
			fmt.Fprintf(&sb, "s = \"abc\"\ndbtp s%s\n", strings.Repeat(".to_s", n))
		case 9: // n-fold nesting of blocks / conditionals
			for j := 0; j < n && j < 40; j++ {
				fmt.Fprintf(&sb, "%s%s\n", strings.Repeat("  ", j), Pick(r, []string{"[1].each do |e|", "if true", "while false", "1.times do"}))
			}
			m := n
			if m > 40 {
				m = 40
			}
			fmt.Fprintf(&sb, "%sdbtp 1\n", strings.Repeat("  ", m))
			for j := m - 1; j >= 0; j-- {
				fmt.Fprintf(&sb, "%send\n", strings.Repeat("  ", j))
			}
		case 10: // a union of n classes
			for j := 0; j < n; j++ {
				fmt.Fprintf(&sb, "class U%d\n  def m\n    %s\n  end\nend\n", j, lit(j))
			}
			fmt.Fprintf(&sb, "u = [%s][0]\ndbtp u\ndbtp u.m\nu.zz\n", seq(n, func(j int) string { return fmt.Sprintf("U%d.new", j) }))
		case 11: // multiple assignment with n targets
			fmt.Fprintf(&sb, "%s = %s\ndbtp t0\ndbtp t%d\n", seq(n, func(j int) string { return fmt.Sprintf("t%d", j) }), seq(n, lit), n-1)
		case 12: // n elsif branches / n when branches
			sb.WriteString("x = 1\nif x == 0\n  y = 0\n")
			for j := 1; j < n; j++ {
				fmt.Fprintf(&sb, "elsif x == %d\n  y = %s\n", j, lit(j))
			}
			sb.WriteString("end\ndbtp y\ncase x\n")
			for j := 0; j < n; j++ {
				fmt.Fprintf(&sb, "when %d then %s\n", j, lit(j))
			}
			sb.WriteString("end\n")
		default: // a superclass chain of n classes, n includes
			sb.WriteString("class C0\n  def root\n    1\n  end\nend\n")
			for j := 1; j < n; j++ {
				fmt.Fprintf(&sb, "class C%d < C%d\nend\n", j, j-1)
			}
			fmt.Fprintf(&sb, "dbtp C%d.new.root\nC%d.new.zz\n", n-1, n-1)
			for j := 0; j < n; j++ {
				fmt.Fprintf(&sb, "module M%d\n  def m%d\n    %d\n  end\nend\n", j, j, j)
			}
			sb.WriteString("class Host\n")
			for j := 0; j < n; j++ {
				fmt.Fprintf(&sb, "  include M%d\n", j)
			}
			fmt.Fprintf(&sb, "end\ndbtp Host.new.m%d\n", n-1)
		}
		return &robustCase{Exec: srcExec(sb.String(), pickMode(r)...)}
	}})
	fams = append(fams, family{name: "alias-chains", n: c.N(150, 3000), gen: func(r *RNG, i int) *robustCase {
		// names assigned from one another before any of them has a value: chains,
		// swap cycles of 2-4 names, chains that run INTO a cycle they are not part
		// of (rho shape), self assignment; as a method's last value, at top level,
		// as an argument, in a condition
		k := 2 + r.Intn(6)
		names := make([]string, k)
		for j := range names {
			names[j] = fmt.Sprintf("n%d", j)
		}
		var body []string
		for steps := 1 + r.Intn(7); steps > 0; steps-- {
			switch r.Intn(5) {
			case 0: // swap cycle of 2-4 names
				m := 2 + r.Intn(3)
				if m > k {
					m = k
				}
				st := r.Intn(k)
				var l, rr []string
				for j := 0; j < m; j++ {
					l = append(l, names[(st+j)%k])
					rr = append(rr, names[(st+j+1)%k])
				}
				body = append(body, strings.Join(l, ", ")+" = "+strings.Join(rr, ", "))
			case 1:
				a := Pick(r, names)
				body = append(body, a+" = "+a)
			default:
				body = append(body, Pick(r, names)+" = "+Pick(r, names))
			}
		}
		last := Pick(r, names)
		if r.Bool() {
			// rho shape, built on purpose: a chain c0 = c1, c1 = c2, ... whose end
			// is assigned from a member of a swap cycle of other names
			L := 1 + r.Intn(4)
			m := 2 + r.Intn(2)
			body = nil
			var chain []string
			for j := 0; j <= L; j++ {
				chain = append(chain, fmt.Sprintf("c%d", j))
			}
			var cyc []string
			for j := 0; j < m; j++ {
				cyc = append(cyc, fmt.Sprintf("y%d", j))
			}
			for j := 0; j < L; j++ {
				body = append(body, chain[j]+" = "+chain[j+1])
			}
			body = append(body, chain[L]+" = "+cyc[0])
			var rot []string
			for j := 0; j < m; j++ {
				rot = append(rot, cyc[(j+1)%m])
			}
			body = append(body, strings.Join(cyc, ", ")+" = "+strings.Join(rot, ", "))
			if r.Chance(1, 3) {
				Shuffle(r, body)
			}
			last = chain[0]
			names = append(chain, cyc...)
		}
		var sb strings.Builder
		ind := ""
		inDef := r.Chance(2, 3)
		if inDef {
			sb.WriteString(Pick(r, []string{"def chain_m\n", "class Ch\n  def chain_m\n", "def chain_m(n0, n1 = n2)\n"}))
			ind = "  "
		}
		for _, l := range body {
			sb.WriteString(ind + l + "\n")
		}
		sb.WriteString(ind + Pick(r, []string{last, "dbtp " + last, "puts " + last, "if " + last + "\n" + ind + "  " + last + "\n" + ind + "end", last + ".to_s", "[" + last + ", " + Pick(r, names) + "]", "return " + last}) + "\n")
		if inDef {
			if strings.HasPrefix(sb.String(), "class") {
				sb.WriteString("  end\nend\ndbtp Ch.new.chain_m\n")
			} else {
				sb.WriteString("end\ndbtp chain_m\n")
			}
		}
		return &robustCase{Exec: srcExec(sb.String(), pickMode(r)...)}
	}})
	fams = append(fams, family{name: "cycle-with-receiver", n: c.N(60, 1200), gen: func(r *RNG, i int) *robustCase {
		// modules that include/extend each other in a cycle of 1-3, a class that
		// reaches the cycle, superclass cycles; then rows on which a value of such
		// a class is the receiver (what an editor asks about)
		k := 1 + r.Intn(3)
		var sb strings.Builder
		for j := 0; j < k; j++ {
			fmt.Fprintf(&sb, "module Cy%d\n  %s Cy%d\n  def cy%d_m\n    %d\n  end\nend\n", j, Pick(r, []string{"include", "include", "extend"}), (j+1)%k, j, j)
		}
		fmt.Fprintf(&sb, "class Reach\n  %s Cy0\n  def own_m\n    1\n  end\nend\n", Pick(r, []string{"include", "extend", "include Cy0\n  extend"}))
		if r.Chance(1, 3) {
			sb.WriteString("class Sa < Sb\nend\nclass Sb < Sa\nend\n")
		}
		sb.WriteString("class Kid < Reach\nend\n")
		var recvRows []int
		for q := 0; q < 1+r.Intn(3); q++ {
			sb.WriteString(Pick(r, []string{"v = Reach.new\nv.own_m\n", "w = Kid.new\nw.cy0_m\n", "Reach.new.zz\n", "Reach.cy0_m\n", "x = Kid.new\nx.\n", "Reach.\n", "y = Reach.new\ny.\n", "Sa.new.\n", "dbtp Kid.new.own_m\n"}))
			recvRows = append(recvRows, strings.Count(sb.String(), "\n"))
		}
		e := srcExec(sb.String(), pickMode(r)...)
		if len(e.Argv) > 1 && strings.HasPrefix(e.Argv[1], "--") && r.Chance(3, 4) {
			// an editor query: on the row of one of the receivers
			e.Argv = append(e.Argv, fmt.Sprintf("--row=%d", Pick(r, recvRows)))
		}
		return &robustCase{Exec: e}
	}})
	fams = append(fams, family{name: "partial-config", n: c.N(140, 2000), gen: func(r *RNG, i int) *robustCase {
		// the shipped configuration minus one method (or one whole class file):
		// the methods ti evaluates with a strategy of its own must not rely on
		// their declaration being there
		targets := []struct{ file, class, method, prog string }{
			{"hash.json", "Hash", "merge", "h = {a: 1}\nx = h.merge({b: 2})\ndbtp x\nh.merge(\n"},
			{"hash.json", "Hash", "each", "{a: 1}.each do |k, v|\n  dbtp v\nend\n"},
			{"hash.json", "Hash", "[]", "h = {a: 1}\ndbtp h[:a]\nh[:b] = 2\n"},
			{"array.json", "Array", "push", "a = [1]\na.push(\"s\")\ndbtp a\n"},
			{"array.json", "Array", "<<", "a = [1]\na << \"s\"\ndbtp a\n"},
			{"array.json", "Array", "concat", "a = [1]\na.concat([2.5])\ndbtp a\n"},
			{"array.json", "Array", "unshift", "a = [1]\na.unshift(:s)\ndbtp a\n"},
			{"array.json", "Array", "each", "[1, 2].each do |e|\n  dbtp e\nend\n"},
			{"array.json", "Array", "[]", "a = [1, 2]\ndbtp a[0]\ndbtp a.first\n"},
			{"array.json", "Array", "map", "dbtp [1].map { |e| e.to_s }\n"},
			{"integer.json", "Integer", "+", "dbtp 1 + 2\nx = 1\nx += 1\n"},
			{"integer.json", "Integer", "times", "3.times do |i|\n  dbtp i\nend\n"},
			{"string.json", "String", "+", "dbtp \"a\" + \"b\"\n"},
			{"object.json", "", "class", "dbtp 1.class\nx = \"s\"\ndbtp x.class\n"},
			{"object.json", "", "nil?", "x = nil\nif x.nil?\n  dbtp x\nend\n"},
			{"object.json", "", "is_a?", "x = 1\nif x.is_a?(Integer)\n  dbtp x\nend\n"},
			{"kernel.json", "Kernel", "puts", "puts 1\np 2\nraise \"x\"\n"},
			{"kernel.json", "Kernel", "raise", "def f\n  raise \"x\"\nend\ndbtp f\n"},
			{"kernel.json", "Kernel", "attr_accessor", "class A\n  attr_accessor :v\n  attr_reader :w\nend\ndbtp A.new.v\n"},
			{"range.json", "Range", "each", "(1..3).each do |e|\n  dbtp e\nend\n"},
		}
		t := targets[i%len(targets)]
		shipped := ShippedConfig()
		cfg := &Config{Files: map[string]string{}}
		dropFile := r.Chance(1, 4)
		for n, b := range shipped.Files {
			if n == t.file && dropFile {
				continue
			}
			if n == t.file {
				var d map[string]any
				if json.Unmarshal([]byte(b), &d) == nil {
					for _, key := range []string{"instance_methods", "class_methods"} {
						if ms, ok := d[key].([]any); ok {
							var keep []any
							for _, m := range ms {
								if mm, ok := m.(map[string]any); ok && mm["name"] == t.method {
									continue
								}
								keep = append(keep, m)
							}
							d[key] = keep
						}
					}
					if nb, err := json.Marshal(d); err == nil {
						b = string(nb)
					}
				}
			}
			cfg.Files[n] = b
		}
		src := t.prog
		progRows := strings.Count(src, "\n")
		if r.Bool() {
			src += Pick(r, items).Source
		}
		e := srcExec(src, pickMode(r)...)
		if len(e.Argv) > 1 && strings.HasPrefix(e.Argv[1], "--") && r.Chance(3, 4) {
			// an editor query: on one of the rows that use the missing method
			e.Argv = append(e.Argv, fmt.Sprintf("--row=%d", 1+r.Intn(progRows)))
		}
		e.Config = cfg
		return &robustCase{Exec: e}
	}})
	fams = append(fams, generatedFamilies(c, modes)...)
	return fams
}

// generatedFamilies is extended by the grammar-based generator (rubygen.go).
var generatedFamilies = func(c *CheckCtx, modes [][]string) []family { return nil }

func runFamilies(c *CheckCtx, fams []family, want string, bbPercent int, withRow bool) {
	type job struct {
		f *family
		i int
	}
	var jobs []job
	for fi := range fams {
		for i := 0; i < fams[fi].n; i++ {
			jobs = append(jobs, job{&fams[fi], i})
		}
	}
	famCount := map[string]int{}
	for _, f := range fams {
		famCount[f.name] = f.n
	}
	c.Extra("families", famCount)
	c.Eng.Map(len(jobs), func(s *Slot, k int) {
		j := jobs[k]
		r := c.RNG.Sub(uint64(k))
		rc := j.f.gen(r, j.i)
		rc.Family = j.f.name
		if withRow {
			addRowArg(r, rc.Exec)
		}
		forceBB := r.Intn(100) < bbPercent
		if k%997 == 0 {
			c.Sample(map[string]any{"family": rc.Family, "argv": rc.Exec.Argv, "source": clip(rc.Exec.Files[targetFile], 400)})
		}
		if v := judgeRobust(c, s, rc, want, forceBB); v != nil {
			c.Report(v)
		}
	})
}

func clip(s string, n int) string {
	if len(s) > n {
		return s[:n] + fmt.Sprintf("...(%d bytes)", len(s))
	}
	return s
}

// addRowArg appends --row=N with N in 0..lines+2 (C04), unless the family
// chose a row itself.
func addRowArg(r *RNG, e *Exec) {
	for _, a := range e.Argv {
		if strings.HasPrefix(a, "--row=") {
			return
		}
	}
	lines := strings.Count(e.Files[targetFile], "\n") + 1
	e.Argv = append(e.Argv, fmt.Sprintf("--row=%d", r.Intn(lines+3)))
}

func init() {
	register(&Check{ID: "C01", Title: "never crashes, whatever the source", Replay: replayRobust("C01"), Run: func(c *CheckCtx) {
		c.rule = "cases = hostile endings (fixed list, each in both modes) + whole corpus programs + seeded corpus prefixes (line/punctuation/token/byte cuts) + token-level mutations + mutated prefixes + token soup + grammar-generated programs and their prefixes; each analysed in-process with `ti main.rb` or `ti main.rb -i`; every anomaly (panic, non-zero status, malformed line, dead worker) is re-judged on the plain binary in a fresh process; a fixed share of cases goes straight to the plain binary. distinct_nontrivial = distinct (mode, source) pairs whose run printed at least one line or was anomalous"
		c.assumptions = []string{"the in-process driver is only an accelerator: a violation is reported only when the plain `ti` binary built from the working tree shows it", "runs that hang (C02's subject) are not judged here"}
		runFamilies(c, robustFamilies(c, [][]string{{}, {"-i"}}), "C01", c.N(3, 2), false)
	}})
	register(&Check{ID: "C02", Title: "terminates without the watchdog", Replay: replayRobust("C02"), Run: func(c *CheckCtx) {
		c.rule = "same input families as C01 plus inheritance/include cycles and include lattices (2^depth paths); a run is a hang candidate when the logical watchdog (EOF-read and token-fetch budgets, > 100x the measured legitimate maxima; ancestor-walk budget, 4x the token budget and about 4x the measured legitimate maximum) trips in-process or the worker overflows its stack; it is a violation only if the plain binary then prints `timeout` in 3 of 3 serial reruns made while all workers are paused. distinct_nontrivial = distinct (mode, source) pairs whose run printed output or hung"
		c.assumptions = []string{"a black-box `timeout` without logical evidence (slow machine) is counted as inconclusive_slow and never reported", "budgets: eof 5000+50n, tokens 20000+400n for n input bytes"}
		runFamilies(c, robustFamilies(c, [][]string{{}, {"-i"}}), "C02", c.N(3, 2), false)
	}})
	_ = filepath.Join
}
