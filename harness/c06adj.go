package main

import (
	"strings"
)

// C06 adjacency family: a complete statement (or a body header) A directly
// followed by a statement B whose first token could also continue an
// expression (if/unless/while/until as modifiers, `[` as an index, `-` as an
// operator, `(`, a literal). Ruby ends A at its line end, so a blank or
// comment-only line between A and B changes nothing but rows. Programs of the
// corpus and of the statement generator rarely put such pairs next to each
// other; this family enumerates them.

type adjPiece struct {
	Name  string
	Lines []string // relative to the body indentation
}

var adjFirst = []adjPiece{
	{"modifier-while", []string{"i += 1 while i < n"}},
	{"modifier-until", []string{"i += 1 until i > n"}},
	{"modifier-if", []string{"i += 1 if i < n"}},
	{"modifier-unless", []string{"i += 1 unless i > n"}},
	{"assign-array", []string{"j = [1, 2]"}},
	{"assign-var", []string{"j = n"}},
	{"assign-call", []string{"j = i.to_s"}},
	{"assign-call-parens", []string{"j = i.fdiv(2)"}},
	{"assign-string", []string{"j = \"s\""}},
	{"assign-symbol", []string{"j = :sym"}},
	{"assign-hash", []string{"j = {a: 1}"}},
	{"assign-range", []string{"j = (1..3)"}},
	{"assign-ternary", []string{"j = i > 2 ? \"a\" : :b"}},
	{"assign-multi", []string{"j = k = 1"}},
	{"assign-neg", []string{"j = -i"}},
	{"assign-not", []string{"j = !n"}},
	{"assign-pred", []string{"j = n.zero?"}},
	{"call-no-parens", []string{"puts i"}},
	{"call-p", []string{"p i"}},
	{"user-call-no-parens", []string{"j = helper_one i"}},
	{"user-call", []string{"j = helper_one(i)"}},
	{"brace-block", []string{"[1, 2].each { |e| i += e }"}},
	{"do-block-one-line", []string{"[1, 2].each do |e| i += e end"}},
	{"do-block", []string{"[1, 2].each do |e|", "  i += e", "end"}},
	{"if-block", []string{"if n > 1", "  i += 1", "end"}},
	{"while-block", []string{"while i < n", "  i += 1", "end"}},
	{"until-block", []string{"until i > n", "  i += 1", "end"}},
	{"case-block", []string{"case n", "when 1 then i += 1", "else i += 2", "end"}},
	{"begin-block", []string{"begin", "  i += 1", "end"}},
	{"return-modifier", []string{"return \"early\" if n > 100"}},
	{"expr-stmt", []string{"i.to_s"}},
	{"literal-stmt", []string{"7"}},
	{"compound-assign", []string{"i += n"}},
	{"index-assign", []string{"arr[0] = i"}},
	{"index-read", []string{"j = arr[0]"}},
	{"string-interp", []string{"j = \"v#{i}\""}},
	{"ivar-assign", []string{"@seen = i"}},
	{"dbtp", []string{"dbtp i"}},
	{"rescue-modifier", []string{"j = i.fdiv(2) rescue nil"}},
	{"rescue-modifier-call", []string{"puts i rescue nil"}},
	{"and-or", []string{"j = i and n"}},
	{"not", []string{"j = (not n)"}},
	{"defined", []string{"j = defined?(i)"}},
	{"lambda", []string{"j = ->(q) { q }"}},
	{"proc-call", []string{"j = [1].map { |q| q }"}},
	{"heredoc-free-string", []string{"j = 'single'"}},
	{"percent-w", []string{"j = %w[a b]"}},
	{"safe-navigation", []string{"j = n&.to_s"}},
	{"range-literal", []string{"j = 1..n"}},
	{"op-assign-or", []string{"j ||= 5"}},
	{"multiple-assign", []string{"j, k = 1, \"s\""}},
	{"yield-free-block-arg", []string{"arr.each(&:to_s)"}},
}

// adjClassFirst / adjClassSecond: the same idea inside a class body.
var adjClassFirst = []adjPiece{
	{"attr-accessor", []string{"attr_accessor :lv"}},
	{"attr-reader", []string{"attr_reader :lr"}},
	{"attr-accessor-two", []string{"attr_accessor :lv, :lw"}},
	{"include", []string{"include Adjmix"}},
	{"extend", []string{"extend Adjmix"}},
	{"private", []string{"private"}},
	{"public", []string{"public"}},
	{"protected", []string{"protected"}},
	{"endless-def", []string{"def en = 1"}},
	{"one-line-def", []string{"def ol; 1; end"}},
	{"def", []string{"def dm", "  1", "end"}},
	{"constant", []string{"LIMIT = 5"}},
	{"class-variable", []string{"@@count = 0"}},
	{"private-def", []string{"private def pd", "  1", "end"}},
	{"private-symbol", []string{"def ps", "  1", "end", "private :ps"}},
	{"class-self-block", []string{"class << self", "  def cs", "    1", "  end", "end"}},
}

var adjClassSecond = []adjPiece{
	{"if", []string{"if true", "  def cm", "    \"s\"", "  end", "end"}},
	{"unless", []string{"unless false", "  def cm", "    \"s\"", "  end", "end"}},
	{"while", []string{"while false", "end", "def cm", "  \"s\"", "end"}},
	{"array-each", []string{"[1].each { |e| e }", "def cm", "  \"s\"", "end"}},
	{"def", []string{"def cm", "  \"s\"", "end"}},
	{"def-self", []string{"def self.cm", "  \"s\"", "end", "def cm", "  :k", "end"}},
	{"attr-reader", []string{"attr_reader :other", "def cm", "  \"s\"", "end"}},
	{"paren-expr", []string{"(1).to_s", "def cm", "  \"s\"", "end"}},
	{"private", []string{"private", "def hidden", "  1", "end", "public", "def cm", "  \"s\"", "end"}},
	{"case", []string{"case 1", "when 1 then 2", "end", "def cm", "  \"s\"", "end"}},
	{"begin", []string{"begin", "  1", "end", "def cm", "  \"s\"", "end"}},
}

// buildClassAdjacency: b directly follows a inside a class body.
func buildClassAdjacency(ai, bi int) (src string, boundary int, ctx string) {
	a, b := adjClassFirst[ai], adjClassSecond[bi]
	var lines []string
	emit := func(ind string, ls ...string) {
		for _, l := range ls {
			lines = append(lines, ind+l)
		}
	}
	emit("", "module Adjmix", "  def mixed", "    2.5", "  end", "end", "class Adjc")
	emit("  ", "def initialize", "  @iv = 1.5", "end", "def first_m", "  0", "end")
	emit("  ", a.Lines...)
	boundary = len(lines) + 1
	emit("  ", b.Lines...)
	// (a body that ends early shows here: last_m reads what initialize set)
	emit("  ", "def last_m", "  @iv", "end", "def self.last_s", "  new.first_m", "end")
	emit("", "end", "av = Adjc.new", "dbtp av.cm", "dbtp av.first_m", "dbtp av.last_m", "dbtp Adjc.last_s", "av.lv", "av.nope")
	return strings.Join(lines, "\n") + "\n", boundary, "adj-class:" + a.Name + "|" + b.Name
}

var adjSecond = []adjPiece{
	{"if", []string{"if i > 2", "  return \"many\"", "end"}},
	{"if-else", []string{"if i > 2", "  j = \"many\"", "else", "  j = :few", "end"}},
	{"unless", []string{"unless i > 2", "  return :few", "end"}},
	{"while", []string{"while i < 10", "  i += 1", "end"}},
	{"until", []string{"until i > 10", "  i += 1", "end"}},
	{"array-each", []string{"[1, 2].each { |e| i += e }"}},
	{"array-stmt", []string{"[i, \"s\"]"}},
	{"array-index-assign", []string{"arr[1] = 5"}},
	{"paren-expr", []string{"(i + 1).to_s"}},
	{"symbol-stmt", []string{":sym"}},
	{"string-stmt", []string{"\"str\""}},
	{"not-stmt", []string{"!i"}},
	{"case", []string{"case n", "when 1 then return \"one\"", "end"}},
	{"case-in", []string{"case n", "in Integer => m", "  j = m", "end"}},
	{"begin", []string{"begin", "  j = 1.5", "end"}},
	{"return-if", []string{"return i.to_s if i > 5"}},
	{"assign", []string{"j = 1.5"}},
	{"puts", []string{"puts i"}},
	{"dbtp", []string{"dbtp i"}},
	{"call", []string{"i.to_s"}},
	{"for", []string{"for e in [1, 2]", "  i += e", "end"}},
	{"loop", []string{"loop do", "  break", "end"}},
	{"return", []string{"return :done"}},
	{"ivar", []string{"@seen = \"s\""}},
	{"do-block", []string{"[1, 2].each do |e|", "  i += e", "end"}},
	{"times", []string{"3.times { |t| i += t }"}},
	{"ternary", []string{"j = n > 1 ? :a : \"b\""}},
	{"self-call", []string{"helper_one(i)"}},
}

// headers whose body B opens: A is the header line itself.
var adjHeaders = []struct {
	Name        string
	Open, Close []string
}{
	{"case-in-header", []string{"case n", "in Integer => m"}, []string{"end"}},
	{"case-when-header", []string{"case n", "when 3"}, []string{"end"}},
	{"case-when-then-header", []string{"case n", "when 1 then j = 1", "when 3"}, []string{"end"}},
	{"case-else-header", []string{"case n", "when 1 then j = 1", "else"}, []string{"end"}},
	{"if-header", []string{"if n > 1"}, []string{"end"}},
	{"unless-header", []string{"unless n > 100"}, []string{"end"}},
	{"elsif-header", []string{"if n > 100", "  j = 1", "elsif n > 1"}, []string{"end"}},
	{"else-header", []string{"if n > 100", "  j = 1", "else"}, []string{"end"}},
	{"begin-header", []string{"begin"}, []string{"end"}},
	{"rescue-header", []string{"begin", "  j = 1", "rescue => err"}, []string{"end"}},
	{"ensure-header", []string{"begin", "  j = 1", "ensure"}, []string{"end"}},
	{"do-header", []string{"[1, 2].each do |e|"}, []string{"end"}},
	{"brace-header", []string{"[1, 2].each { |e|"}, []string{"}"}},
	{"loop-header", []string{"loop do"}, []string{"  break", "end"}},
	{"while-header", []string{"while i < n"}, []string{"  i += 1", "end"}},
	{"def-header", nil, nil},
}

// buildAdjacency returns a program in which b directly follows a (or the
// header h when hi >= 0) and the 1-based line of b's first line.
func buildAdjacency(ai, hi, bi int, top bool) (src string, boundary int, ctx string) {
	var lines []string
	emit := func(ind string, ls ...string) {
		for _, l := range ls {
			lines = append(lines, ind+l)
		}
	}
	emit("", "def helper_one(a) = a", "")
	b := adjSecond[bi]
	if hi >= 0 {
		h := adjHeaders[hi]
		ctx = "adj:" + h.Name + "|" + b.Name
		if h.Open == nil {
			// b is the first statement of the method body
			emit("", "def adj(n)")
			boundary = len(lines) + 1
			emit("  ", b.Lines...)
			emit("  ", "i = 0", "j = nil", "arr = [1, 2]", "dbtp i", "dbtp j", "i")
			emit("", "end", "dbtp adj(3)")
			return strings.Join(lines, "\n") + "\n", boundary, ctx
		}
		emit("", "def adj(n)")
		emit("  ", "i = 0", "j = nil", "arr = [1, 2]")
		emit("  ", h.Open...)
		boundary = len(lines) + 1
		emit("    ", b.Lines...)
		emit("    ", "dbtp i", "dbtp j")
		emit("  ", h.Close...)
		emit("  ", "dbtp j", "i")
		emit("", "end", "dbtp adj(3)")
		return strings.Join(lines, "\n") + "\n", boundary, ctx
	}
	a := adjFirst[ai]
	ctx = "adj:" + a.Name + "|" + b.Name
	ind := "  "
	if top {
		ind = ""
		ctx += "|top"
		emit("", "n = 3")
	} else {
		emit("", "def adj(n)")
	}
	emit(ind, "i = 0", "j = nil", "arr = [1, 2]")
	noReturn := func(ls []string) []string {
		var out []string
		for _, l := range ls {
			if top {
				// no method to return from at top level
				l = strings.Replace(l, "return ", "j = ", 1)
			}
			out = append(out, l)
		}
		return out
	}
	emit(ind, noReturn(a.Lines)...)
	boundary = len(lines) + 1
	emit(ind, noReturn(b.Lines)...)
	emit(ind, "dbtp i", "dbtp j")
	if !top {
		emit("", "  i", "end", "dbtp adj(3)")
	}
	return strings.Join(lines, "\n") + "\n", boundary, ctx
}
