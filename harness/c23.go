package main

import (
	"encoding/json"
	"fmt"
	"sort"
	"strings"
)

// ---------------------------------------------------------------------------
// C23: completion lists exactly the methods the receiver can answer.
//
// The cursor row is the last row of the file and ends in `recv.`. Receivers:
// instances and classes of generated user hierarchies (superclass chains,
// included and extended modules, private/protected methods, an unrelated
// class), literals of the configured core classes, and instances and classes
// of generated configured classes (extends chains). Every method name in the
// generated parts is unique, so each listed name identifies its owner.

type sCase struct {
	Cfg    CfgSpec `json:"cfg"`
	Source string  `json:"source"`
	Row    int     `json:"row"`
	Recv   string  `json:"recv"`
	Kind   string  `json:"kind"` // user-instance | user-class | core-literal | configured-instance | configured-class
	// names that must be listed / must not be listed
	Must    []string `json:"must"`
	MustNot []string `json:"must_not"`
	// every-object names (Object and Kernel of the configuration): must be listed for instance receivers
	Common []string `json:"common"`
	// when set, nothing outside Must+Common+Allowed may be listed
	Closed  bool     `json:"closed"`
	Allowed []string `json:"allowed,omitempty"`
	// the printed value of the receiver starts with an upper-case letter (see KNOWN_FINDINGS)
	UpperValue bool `json:"upper_value"`
}

func commonNames(model *CfgModel) []string {
	set := map[string]bool{}
	for _, key := range []string{"Builtin::", "Builtin::Kernel"} {
		if mc := model.Classes[key]; mc != nil {
			for n := range mc.Instance {
				set[n] = true
			}
		}
	}
	var out []string
	for n := range set {
		out = append(out, n)
	}
	sort.Strings(out)
	return out
}

func chainNames(model *CfgModel, class string, static bool) []string {
	set := map[string]bool{}
	var walk func(c string, d int)
	walk = func(c string, d int) {
		mc := model.Classes["Builtin::"+c]
		if mc == nil || d > 8 {
			return
		}
		tab := mc.Instance
		if static {
			tab = mc.Static
		}
		for n := range tab {
			set[n] = true
		}
		for _, e := range mc.Extends {
			walk(e, d+1)
		}
	}
	walk(class, 0)
	var out []string
	for n := range set {
		out = append(out, n)
	}
	sort.Strings(out)
	return out
}

func genSuggestUser(r *RNG, common []string) *sCase {
	sc := &sCase{Common: common}
	var lines []string
	emit := func(s string) { lines = append(lines, s) }
	def := func(ind, name string) {
		emit(ind + "def " + name)
		emit(ind + "  1")
		emit(ind + "end")
	}
	nmod := r.Intn(3)
	mods := []string{"Mixa", "Mixb"}[:nmod]
	var moduleFunctions []string // def self.x of a module: answered by the module only
	// ancestors may live in another namespace than the class: mixins inside
	// `module Drawing` (named Drawing::Mixa), the lower part of the chain inside
	// `module Geo` with the superclass at top level
	modNs := ""
	if nmod > 0 && r.Chance(1, 3) {
		modNs = "Drawing::"
	}
	for _, m := range mods {
		ind := ""
		if modNs != "" {
			emit("module Drawing")
			ind = "  "
		}
		emit(ind + "module " + m)
		def(ind+"  ", strings.ToLower(m)+"_m")
		if r.Bool() {
			n := strings.ToLower(m) + "_modfn"
			emit(ind + "  def self." + n)
			emit(ind + "    1")
			emit(ind + "  end")
			moduleFunctions = append(moduleFunctions, n)
		}
		emit(ind + "end")
		if modNs != "" {
			emit("end")
		}
	}
	names := []string{"Alpha", "Beta", "Gamma", "Delta"}
	depth := 1 + r.Intn(4)
	type cinfo struct {
		name          string
		inc, ext      []string
		pub, priv     []string
		prot, statics []string
	}
	var chain []cinfo
	nsFrom := depth // classes from this index on live in module Geo
	if r.Chance(1, 3) {
		nsFrom = r.Intn(depth)
	}
	qual := func(i int) string {
		if i >= nsFrom {
			return "Geo::" + names[i]
		}
		return names[i]
	}
	for i := 0; i < depth; i++ {
		c := cinfo{name: names[i]}
		l := strings.ToLower(c.name)
		head := "class " + c.name
		if i > 0 {
			head += " < " + names[i-1]
		}
		if i >= nsFrom {
			emit("module Geo")
		}
		emit(head)
		for _, m := range mods {
			switch r.Intn(8) {
			case 0, 1:
				emit("  include " + modNs + m)
				c.inc = append(c.inc, m)
			case 2:
				emit("  extend " + modNs + m)
				c.ext = append(c.ext, m)
			case 3:
				// both, in either order
				if r.Bool() {
					emit("  include " + modNs + m)
					emit("  extend " + modNs + m)
				} else {
					emit("  extend " + modNs + m)
					emit("  include " + modNs + m)
				}
				c.inc = append(c.inc, m)
				c.ext = append(c.ext, m)
			}
		}
		if r.Chance(1, 3) {
			emit("  def initialize")
			emit("  end")
		}
		for k := 0; k <= r.Intn(2); k++ {
			n := fmt.Sprintf("%s_i%d", l, k)
			def("  ", n)
			c.pub = append(c.pub, n)
		}
		if r.Bool() {
			n := l + "_s"
			emit("  def self." + n)
			emit("    1")
			emit("  end")
			c.statics = append(c.statics, n)
		}
		if r.Bool() {
			emit("  private")
			def("  ", l+"_p")
			c.priv = append(c.priv, l+"_p")
			if r.Chance(1, 3) {
				// a singleton block inside the private section: its methods are
				// public class methods, and the section goes on after it
				emit("  class << self")
				def("    ", l+"_meta")
				emit("  end")
				c.statics = append(c.statics, l+"_meta")
				def("  ", l+"_p2")
				c.priv = append(c.priv, l+"_p2")
			}
		}
		if r.Bool() {
			emit("  protected")
			def("  ", l+"_q")
			c.prot = append(c.prot, l+"_q")
		}
		emit("end")
		if i >= nsFrom {
			emit("end")
		}
		chain = append(chain, c)
	}
	// an unrelated class
	emit("class Stranger")
	def("  ", "stranger_i")
	emit("  def self.stranger_s")
	emit("    1")
	emit("  end")
	ti := r.Intn(depth)
	target := chain[ti]
	targetRef := qual(ti)
	// the unrelated class also PRODUCES instances of the target class
	emit("  def self.stranger_make")
	emit("    " + targetRef + ".new")
	emit("  end")
	emit("  def stranger_produce")
	emit("    " + targetRef + ".new")
	emit("  end")
	emit("  private")
	def("  ", "stranger_p")
	emit("end")
	var instNames, staticNames, hiddenOfOthers []string
	for i := 0; i <= ti; i++ {
		instNames = append(instNames, chain[i].pub...)
		staticNames = append(staticNames, chain[i].statics...)
		for _, m := range chain[i].inc {
			instNames = append(instNames, strings.ToLower(m)+"_m")
		}
		for _, m := range chain[i].ext {
			staticNames = append(staticNames, strings.ToLower(m)+"_m")
		}
		// the cursor is at the top level: no private method is callable on the
		// receiver, the receiver's own class's included
		hiddenOfOthers = append(hiddenOfOthers, chain[i].priv...)
	}
	var below []string // methods of subclasses: not answered by the target
	for i := ti + 1; i < depth; i++ {
		below = append(below, chain[i].pub...)
		below = append(below, chain[i].statics...)
		below = append(below, chain[i].priv...)
	}
	// a class of the target's short name in another namespace, with methods of its own
	decoy := r.Bool()
	if decoy {
		emit("module Other")
		emit("  class " + target.name)
		def("    ", "decoy_i")
		emit("    def self.decoy_s")
		emit("      1")
		emit("    end")
		emit("  end")
		emit("end")
	}
	minus := func(a, b []string) []string {
		var o []string
		for _, x := range a {
			if !contains(b, x) {
				o = append(o, x)
			}
		}
		return o
	}
	if r.Bool() {
		sc.Kind = "user-instance"
		switch r.Intn(4) {
		case 0:
			emit("obj = Stranger.stranger_make")
			sc.Kind = "user-instance-from-foreign-class-method"
		case 1:
			emit("obj = Stranger.new.stranger_produce")
			sc.Kind = "user-instance-from-foreign-method"
		default:
			emit("obj = " + targetRef + ".new")
		}
		sc.Recv = "obj"
		sc.Must = instNames
		sc.MustNot = append(append(append([]string{"stranger_i", "stranger_s", "stranger_p", "stranger_make", "stranger_produce"}, hiddenOfOthers...), below...), minus(staticNames, instNames)...)
		sc.MustNot = append(sc.MustNot, moduleFunctions...)
		sc.UpperValue = true
	} else {
		sc.Kind = "user-class"
		sc.Recv = targetRef
		sc.Must = append(staticNames, "new")
		sc.MustNot = append(append([]string{"stranger_i", "stranger_s", "stranger_p", "stranger_make", "stranger_produce"}, below...), minus(instNames, staticNames)...)
		sc.MustNot = append(sc.MustNot, moduleFunctions...)
		sc.Common = nil
	}
	if decoy {
		own := append(append([]string{}, instNames...), staticNames...)
		if r.Chance(1, 4) {
			// the receiver is the namespaced class instead
			lines = lines[:len(lines)-0]
			if sc.Kind == "user-class" {
				sc.Recv = "Other::" + target.name
				sc.Must, sc.MustNot = []string{"decoy_s", "new"}, append(own, "decoy_i")
				sc.Kind = "user-class-same-name-other-namespace"
			} else {
				if strings.HasPrefix(lines[len(lines)-1], "obj = ") {
					lines = lines[:len(lines)-1]
				}
				emit("obj = Other::" + target.name + ".new")
				sc.Must, sc.MustNot = []string{"decoy_i"}, append(own, "decoy_s")
				sc.Kind = "user-instance-same-name-other-namespace"
			}
		} else {
			sc.MustNot = append(sc.MustNot, "decoy_i", "decoy_s")
		}
	}
	// the cursor inside a method body (rows follow it) instead of on the last
	// row of the file: a local variable, the class name, or self
	if !strings.Contains(sc.Kind, "same-name-other-namespace") && r.Chance(1, 3) {
		if strings.HasPrefix(lines[len(lines)-1], "obj = ") {
			lines = lines[:len(lines)-1]
		}
		inst := strings.HasPrefix(sc.Kind, "user-instance")
		selfForm := r.Bool()
		switch {
		case selfForm && inst:
			if ti >= nsFrom {
				emit("module Geo")
			}
			emit("class " + target.name)
			emit("  def cursor_here")
			emit("    self.")
			sc.Row = len(lines)
			emit("  end")
			emit("end")
			if ti >= nsFrom {
				emit("end")
			}
			sc.Recv = "self"
			sc.Kind = "self-in-instance-method"
			// self answers its private methods too: not judged either way
			var mn []string
			for _, n := range sc.MustNot {
				if !contains(hiddenOfOthers, n) {
					mn = append(mn, n)
				}
			}
			sc.MustNot = mn
		case selfForm:
			if ti >= nsFrom {
				emit("module Geo")
			}
			emit("class " + target.name)
			emit("  def self.cursor_here")
			emit("    self.")
			sc.Row = len(lines)
			emit("  end")
			emit("end")
			if ti >= nsFrom {
				emit("end")
			}
			sc.Recv = "self"
			sc.Kind = "self-in-class-method"
		case inst:
			emit("class Editor")
			emit("  def edit")
			emit("    obj = " + targetRef + ".new")
			emit("    obj.")
			sc.Row = len(lines)
			emit("  end")
			emit("end")
			sc.Recv = "obj"
			sc.Kind = "user-instance-in-method-body"
		default:
			emit("class Editor")
			emit("  def edit")
			emit("    " + targetRef + ".")
			sc.Row = len(lines)
			emit("  end")
			emit("end")
			sc.Kind = "user-class-in-method-body"
		}
		emit("x = 1")
		if nsFrom < depth && ti >= nsFrom {
			sc.Kind += "+namespaced"
		}
		sc.Source = strings.Join(lines, "\n") + "\n"
		return sc
	}
	if nsFrom < depth && ti >= nsFrom {
		sc.Kind += "+namespaced"
		if nsFrom > 0 {
			sc.Kind += "+ancestor-outside"
		}
	}
	if modNs != "" {
		sc.Kind += "+namespaced-mixin"
	}
	emit(sc.Recv + ".")
	sc.Row = len(lines)
	sc.Source = strings.Join(lines, "\n") + "\n"
	return sc
}

func genSuggestCore(r *RNG, model *CfgModel, common []string) *sCase {
	type lit struct {
		text, class string
		upper       bool
	}
	l := Pick(r, []lit{
		{"\"abc\"", "String", false}, {"\"Hello\"", "String", true}, {"5", "Integer", true}, {"2.5", "Float", true},
		{"[1, 2]", "Array", false}, {"{a: 1}", "Hash", false}, {":sym", "Symbol", false}, {"nil", "NilClass", false}, {"true", "Bool", false},
	})
	sc := &sCase{Kind: "core-literal:" + l.class, Common: common, Closed: true, UpperValue: l.upper, Allowed: chainNames(model, "", true)}
	sc.Must = chainNames(model, l.class, false)
	var lines []string
	if r.Chance(1, 3) && l.class != "NilClass" && l.class != "Bool" {
		// the program reopens the core class: one class with the configured one
		lines = append(lines, "class "+l.class, "  def reopened_m", "    1", "  end", "end")
		sc.Must = append(append([]string{}, sc.Must...), "reopened_m")
		sc.Kind += "+reopened"
	}
	if r.Bool() {
		lines = append(lines, "v = "+l.text, "v.")
		sc.Recv = "v"
	} else {
		if l.class == "Integer" || l.class == "Float" {
			lines = append(lines, "v = "+l.text, "v.")
			sc.Recv = "v"
		} else {
			lines = append(lines, l.text+".")
			sc.Recv = l.text
		}
	}
	sc.Row = len(lines)
	sc.Source = strings.Join(lines, "\n") + "\n"
	return sc
}

func genSuggestConfigured(r *RNG, classes []*GClass, extra map[string]string, common []string) *sCase {
	spec := CfgSpec{Extra: extra}
	model, err := BuildModel(spec.build())
	if err != nil {
		return nil
	}
	// unique method names are not guaranteed here: names of other generated classes
	// that the target's chain does not have must not be listed
	cl := Pick(r, classes)
	sc := &sCase{Cfg: spec, Common: common, Closed: true, Allowed: chainNames(model, "", true)}
	inst := chainNames(model, cl.Name, false)
	stat := chainNames(model, cl.Name, true)
	var others []string
	for _, o := range classes {
		for _, m := range o.Methods {
			if m.Static {
				continue
			}
			if !contains(inst, m.Name) && !contains(common, m.Name) {
				others = append(others, m.Name)
			}
		}
	}
	if r.Bool() {
		sc.Kind = "configured-instance"
		sc.Source = "o = " + cl.Name + ".new\no.\n"
		sc.Row, sc.Recv = 2, "o"
		sc.Must, sc.MustNot = inst, dedup(sortedCopy(others))
		sc.UpperValue = true
	} else {
		sc.Kind = "configured-class"
		sc.Source = cl.Name + ".\n"
		sc.Row, sc.Recv = 1, cl.Name
		sc.Must = stat
		sc.Common = nil
		var instOnly []string
		for _, n := range inst {
			if !contains(stat, n) {
				instOnly = append(instOnly, n)
			}
		}
		sc.MustNot = instOnly
		sc.Closed = false
	}
	return sc
}

func judgeSuggest(c *CheckCtx, rn Runner, sc *sCase) *Violation {
	cfg := sc.Cfg.build()
	if len(sc.Cfg.Extra) == 0 {
		cfg = nil
	}
	out, ok := relRun(c, rn, &Exec{Files: map[string]string{targetFile: sc.Source}, Argv: []string{targetFile, "--suggest", fmt.Sprintf("--row=%d", sc.Row)}, Config: cfg})
	if !ok {
		c.Event("skipped_crash_or_hang", 1)
		return nil
	}
	c.Nontrivial(sc.Source)
	listed := map[string]bool{}
	for _, l := range strings.Split(out, "\n") {
		if strings.HasPrefix(l, "%") {
			f := strings.Split(l[1:], ":::")
			listed[f[0]] = true
		}
	}
	c.Event("receivers_"+strings.SplitN(sc.Kind, ":", 2)[0], 1)
	c.Event("names_listed", int64(len(listed)))
	mk := func(sig, what string) *Violation {
		return &Violation{Sig: sig, Kind: "suggest", Case: mustJSON(sc), What: what, Observed: clip(out, 3000)}
	}
	kind := strings.SplitN(sc.Kind, ":", 2)[0]
	for _, n := range sc.Must {
		if !listed[n] {
			return mk("suggest:missing-own-or-inherited:"+sc.Kind, fmt.Sprintf("`%s.` (%s): %s is callable on the receiver but is not listed", sc.Recv, sc.Kind, n))
		}
	}
	for _, n := range sc.MustNot {
		if listed[n] {
			return mk("suggest:lists-foreign-method:"+kind, fmt.Sprintf("`%s.` (%s): %s is listed although the receiver cannot answer it", sc.Recv, sc.Kind, n))
		}
	}
	if sc.Closed {
		allowed := map[string]bool{}
		for _, l := range [][]string{sc.Must, sc.Common, sc.Allowed} {
			for _, n := range l {
				allowed[n] = true
			}
		}
		var extra []string
		for n := range listed {
			if !allowed[n] {
				extra = append(extra, n)
			}
		}
		sort.Strings(extra)
		if len(extra) > 0 {
			return mk("suggest:lists-foreign-method:"+kind, fmt.Sprintf("`%s.` (%s): %v are listed although neither the class, its ancestors, Object nor Kernel declare them", sc.Recv, sc.Kind, firstN(extra, 6)))
		}
	}
	var missingCommon []string
	for _, n := range sc.Common {
		if !listed[n] {
			missingCommon = append(missingCommon, n)
		}
	}
	if len(missingCommon) > 0 {
		sig := "suggest:object-kernel-missing:" + kind
		if sc.UpperValue {
			// one cause, one signature: the receiver's printed value starts upper-case
			sig = "suggest:object-kernel-missing:uppercase-value"
		}
		return mk(sig, fmt.Sprintf("`%s.` (%s): %d of the %d methods every object answers (Object, Kernel) are not listed, e.g. %v", sc.Recv, sc.Kind, len(missingCommon), len(sc.Common), firstN(missingCommon, 4)))
	}
	return nil
}

func firstN(xs []string, n int) []string {
	if len(xs) > n {
		return xs[:n]
	}
	return xs
}

func init() {
	register(&Check{ID: "C23", Title: "completion lists exactly the methods the receiver can answer",
		Replay: func(c *CheckCtx, s *Slot, v *Violation) *Violation {
			var sc sCase
			if json.Unmarshal(v.Case, &sc) != nil {
				return nil
			}
			return judgeSuggest(c, s.BlackBox(), &sc)
		},
		Run: func(c *CheckCtx) {
			c.rule = "the cursor row is the last row and ends in `recv.`; receivers: instances and classes of generated user hierarchies (chains of depth 1-4, included/extended modules, private and protected methods, an unrelated class with public, private and class methods; every name unique), literals and variables of the configured core classes (String - lower and upper case text -, Integer, Float, Array, Hash, Symbol, nil, true), instances and classes of generated configured classes with extends chains. Oracle on the `%method:::detail:::doc` lines: every public method of the class and its ancestors is listed (class methods and `new` for a class receiver); instance receivers also list what Object and Kernel declare; nothing of the unrelated class, of subclasses, no private method of another class, no instance method for a class receiver; for configured receivers nothing outside class chain + Object + Kernel. distinct_nontrivial = distinct programs"
			c.assumptions = []string{"protected methods of the receiver's class chain are not judged either way; private ones must not be listed (the cursor is at the top level)", "Object = class \"\" and Kernel of the configuration in use"}
			r := c.RNG.Sub(23)
			shipped, err := BuildModel(ShippedConfig())
			if err != nil {
				c.Inconclusive("cannot read the shipped configuration: " + err.Error())
				return
			}
			common := commonNames(shipped)
			var jobs []*sCase
			for k := 0; k < c.N(120, 3000); k++ {
				jobs = append(jobs, genSuggestUser(r, common))
			}
			for k := 0; k < c.N(60, 600); k++ {
				jobs = append(jobs, genSuggestCore(r, shipped, common))
			}
			for g := 0; g < c.N(5, 60); g++ {
				classes := genClasses(r, 2+r.Intn(3), "")
				extra := map[string]string{}
				for _, cl := range classes {
					extra["zz_"+strings.ToLower(cl.Name)+".json"] = cl.toJSON(Notation{}, r, nil)
				}
				for k := 0; k < c.N(12, 30); k++ {
					if sc := genSuggestConfigured(r, classes, extra, common); sc != nil {
						jobs = append(jobs, sc)
					}
				}
			}
			sort.SliceStable(jobs, func(i, j int) bool { return jobs[i].Cfg.build().Hash() < jobs[j].Cfg.build().Hash() })
			const chunk = 20
			nchunks := (len(jobs) + chunk - 1) / chunk
			c.Eng.Map(nchunks, func(s *Slot, ci int) {
				for i := ci * chunk; i < (ci+1)*chunk && i < len(jobs); i++ {
					sc := jobs[i]
					if i%41 == 0 {
						c.Sample(map[string]any{"program": clip(sc.Source, 900), "kind": sc.Kind})
					}
					if v := exploreThenJudge(c, s, func(rn Runner) *Violation { return judgeSuggest(c, rn, sc) }); v != nil {
						c.Report(v)
					}
				}
			})
		}})
}
