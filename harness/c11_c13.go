package main

import (
	"encoding/json"
	"fmt"
	"regexp"
	"sort"
	"strings"
)

// ---------------------------------------------------------------------------
// C11: independent code does not change the analysis of other code

type indepCase struct {
	Host     string   `json:"host"`
	Fragment string   `json:"fragment"` // whole lines, newline terminated
	Line     int      `json:"line"`     // fragment is inserted before this 1-based host line (len+1 = append)
	Mode     []string `json:"mode"`
	Origin   string   `json:"origin"`
	FragKind string   `json:"frag_kind"`
	NextKind string   `json:"next_kind"`
}

func judgeIndep(c *CheckCtx, rn Runner, ic *indepCase) *Violation {
	hostLines := strings.Split(ic.Host, "\n")
	fragLines := strings.Split(strings.TrimSuffix(ic.Fragment, "\n"), "\n")
	k := len(fragLines)
	if ic.Line < 1 || ic.Line > len(hostLines)+1 {
		return nil
	}
	// indent the fragment like the line it precedes
	indent := ""
	if ic.Line <= len(hostLines) {
		l := hostLines[ic.Line-1]
		indent = l[:len(l)-len(strings.TrimLeft(l, " \t"))]
	}
	// raise and return end the enclosing method: inside a method body they
	// change what it returns, which is no interference. They are judged at top
	// level only (generated and sensitive hosts, whose layout shows the nesting)
	if ic.FragKind == "raise" || ic.FragKind == "return-in-block" {
		if indent != "" || ic.Origin == "corpus" {
			c.Event("skipped_raise_or_return_inside_a_body", 1)
			return nil
		}
	}
	var merged []string
	merged = append(merged, hostLines[:ic.Line-1]...)
	for _, fl := range fragLines {
		merged = append(merged, indent+fl)
	}
	merged = append(merged, hostLines[ic.Line-1:]...)
	argv := append([]string{targetFile}, ic.Mode...)
	// the fragment must be well typed on its own: an erroneous statement makes
	// ti abandon the rest of the enclosing body, which is error recovery, not
	// interference
	if fo, ok := relRun(c, rn, &Exec{Files: map[string]string{targetFile: ic.Fragment}, Argv: []string{targetFile}}); !ok {
		c.Event("skipped_crash_or_hang", 1)
		return nil
	} else {
		for _, rec := range parseOut(fo) {
			if rec.Row < 1 || rec.Row > len(fragLines) || !strings.HasPrefix(strings.TrimSpace(fragLines[rec.Row-1]), "dbtp") {
				c.Event("skipped_fragment_has_own_diagnostics", 1)
				return nil
			}
		}
	}
	o1, ok1 := relRun(c, rn, &Exec{Files: map[string]string{targetFile: ic.Host}, Argv: argv})
	o2, ok2 := relRun(c, rn, &Exec{Files: map[string]string{targetFile: strings.Join(merged, "\n")}, Argv: argv})
	if !ok1 || !ok2 {
		c.Event("skipped_crash_or_hang", 1)
		return nil
	}
	base := parseOut(o1)
	got := mapRows(parseOut(o2), func(r int) (int, bool) {
		switch {
		case r < ic.Line:
			return r, true
		case r < ic.Line+k:
			return 0, false // the fragment's own rows
		default:
			return r - k, true
		}
	})
	if len(base) > 0 {
		c.Event("hosts_with_output", 1)
		c.Nontrivial(fmt.Sprint(ic.Line) + "\x00" + strings.Join(ic.Mode, " ") + "\x00" + ic.Fragment + "\x00" + ic.Host)
	}
	if sameRecs(base, got) {
		return nil
	}
	sig := "interfere:" + ic.FragKind + ":next=" + ic.NextKind + ":" + diffTemplate(base, got)
	return &Violation{Sig: sig, Kind: "indep", Case: mustJSON(ic),
		What:     fmt.Sprintf("inserting an independent fragment (%s) before line %d of a %s host (argv %v) changes the host's own output", ic.FragKind, ic.Line, ic.Origin, ic.Mode),
		Expected: clip(fmtRecs(base), 3000), Observed: clip(fmtRecs(got), 3000)}
}

// stmtKind classifies the first token of a statement line (the host feature
// an interference defect keys on).
func stmtKind(line string) string {
	t := strings.TrimSpace(line)
	if t == "" {
		return "blank"
	}
	switch t[0] {
	case '[':
		return "starts-with-["
	case '(':
		return "starts-with-("
	case '{':
		return "starts-with-{"
	case '-', '+', '*', '&', ':', '!', '"', '\'':
		return "starts-with-" + t[:1]
	case '@':
		return "ivar"
	case '#':
		return "comment"
	}
	w := identRe.FindString(t)
	switch w {
	case "if", "unless", "while", "until", "for", "case", "def", "class", "module", "begin", "return", "dbtp", "p", "puts", "yield", "raise", "private", "protected", "attr_accessor", "attr_reader", "include", "extend", "self":
		return w
	}
	if w != "" && w[0] >= 'A' && w[0] <= 'Z' {
		return "const"
	}
	if regexp.MustCompile(`^[a-z_][A-Za-z0-9_]*\s*=[^=]`).MatchString(t) {
		return "assign"
	}
	if regexp.MustCompile(`^[a-z_][A-Za-z0-9_]*\.`).MatchString(t) {
		return "call-on-var"
	}
	if regexp.MustCompile(`^\d`).MatchString(t) {
		return "literal"
	}
	return "call"
}

var closerRe = regexp.MustCompile(`^\s*(end|else|elsif|when|in|rescue|ensure|\}|\)|\])\b?`)

// fragment generates an independent fragment and a kind label.
func genFragment(r *RNG) (string, string) { return genFragmentKind(r, "") }

var fragmentKinds = []string{"assign", "conditional", "narrowing", "block", "array", "union-call", "while", "case", "mixed", "modifier-if", "modifier-unless", "modifier-while", "ends-with-builtin-block", "ends-with-call", "union-operator", "raise", "return-in-block", "begin-value"}

func genFragmentKind(r *RNG, forced string) (string, string) {
	kinds := []string{"assign", "conditional", "narrowing", "block", "array", "union-call", "while", "case", "mixed", "modifier-if", "modifier-unless", "modifier-while", "ends-with-builtin-block", "ends-with-call", "mixed", "union-operator", "raise", "return-in-block", "begin-value"}
	kind := Pick(r, kinds)
	if forced != "" {
		kind = forced
	}
	var lines []string
	switch kind {
	case "assign":
		lines = []string{"zq1 = " + Pick(r, []string{"5", "\"s\"", "1.5", ":sym", "nil", "true", "[1, 2]", "{a: 1}", "(1..3)"})}
		if r.Bool() {
			lines = append(lines, "zq2 = zq1")
		}
	case "conditional":
		lines = []string{"zq1 = 3", "if zq1 > 2", "  zq2 = \"big\"", "else", "  zq2 = :small", "end"}
	case "narrowing":
		lines = []string{"zq0 = true", "zq1 = zq0 ? 1 : nil", "if zq1.nil?", "  zq2 = 0", "else", "  zq2 = zq1 + 1", "end", "dbtp zq1"}
		if r.Bool() {
			lines = []string{"zq0 = false", "zq1 = zq0 ? \"a\" : 2", "unless zq1.is_a?(String)", "  zq3 = zq1", "end"}
		}
	case "block":
		lines = []string{"zq1 = [1, 2, 3]", "zq1.each do |zq2|", "  zq3 = zq2 + 1", "end"}
		if r.Bool() {
			lines = []string{"[\"a\", \"b\"].each { |zq2| zq3 = zq2.upcase }"}
		}
	case "array":
		lines = []string{"zq1 = [1, \"a\", 2.5]", "zq2 = zq1[0]", "zq1.push(:s)"}
	case "union-call":
		lines = []string{"zq0 = true", "zq1 = zq0 ? 1 : \"s\"", "zq2 = zq1.to_s", "zq3 = zq1.nil?"}
	case "union-operator":
		// a builtin operator on a union whose members answer it with different classes
		op := Pick(r, []string{"*", "+", "-"})
		switch op {
		case "*":
			lines = []string{"zq0 = true", "zq1 = zq0 ? 7 : \"seven\"", "zq2 = zq1 * 2"}
		case "+":
			lines = []string{"zq0 = true", "zq1 = zq0 ? 7 : 2.5", "zq2 = zq1 + 2"}
		default:
			lines = []string{"zq0 = true", "zq1 = zq0 ? 7 : 2.5", "zq2 = zq1 - 1", "zq3 = zq1.to_s"}
		}
	case "begin-value":
		// a begin expression whose value is assigned
		lines = []string{"zq1 = begin", "  1", "rescue", "  2", "end", "zq2 = zq1"}
		if r.Bool() {
			lines = []string{"zq1 = begin", "  \"s\"", "end"}
		}
	case "raise":
		lines = []string{"zq1 = 0", Pick(r, []string{"raise \"bad level\" if zq1 == 1", "raise ArgumentError if zq1 > 5", "raise \"never\" unless zq1 == 0"})}
	case "return-in-block":
		lines = []string{"[1, 2].each do |zq1|", "  return zq1 if zq1 > 5", "end"}
	case "modifier-if":
		lines = []string{"zq1 = 1", "zq2 = \"s\" if zq1 > 0"}
	case "modifier-unless":
		lines = []string{"zq1 = 1", "zq2 = 2.5 unless zq1.nil?"}
	case "modifier-while":
		lines = []string{"zq1 = 0", "zq1 = zq1 + 1 while zq1 < 3"}
	case "ends-with-builtin-block":
		lines = []string{Pick(r, []string{"\"abc\".each_char do |zq1|\n  zq2 = zq1\nend", "3.times do |zq1|\n  zq2 = zq1\nend", "{a: 1}.each do |zq1, zq2|\n  zq3 = zq2\nend", "[1.5].each { |zq1| zq2 = zq1 }", "(1..3).each do |zq1|\n  zq2 = zq1\nend"})}
	case "ends-with-call":
		lines = []string{"zq1 = \"abc\"", Pick(r, []string{"zq1.upcase", "zq2 = zq1.length", "zq1.split(\",\")", "zq3 = [1, 2].first", "zq4 = 1.to_s", "p(zq1)", "zq1 + \"x\""})}
	case "while":
		lines = []string{"zq1 = 0", "while zq1 < 3", "  zq1 = zq1 + 1", "end"}
	case "case":
		lines = []string{"zq1 = 2", "case zq1", "when 1", "  zq2 = \"one\"", "when 2", "  zq2 = \"two\"", "else", "  zq2 = nil", "end"}
	default:
		p := genProgram(r, GenOpts{Prefix: "zq", NoDefs: true, NoErrors: true, Stmts: 2 + r.Intn(4), MaxDepth: 2})
		return p.Render(nil).Text(), "generated"
	}
	return strings.Join(lines, "\n") + "\n", kind
}

var hasZqRe = regexp.MustCompile(`\bzq|\bZq`)

func init() {
	register(&Check{ID: "C11", Title: "independent code does not change the analysis of other code",
		Replay: func(c *CheckCtx, s *Slot, v *Violation) *Violation {
			var ic indepCase
			if json.Unmarshal(v.Case, &ic) != nil {
				return nil
			}
			return judgeIndep(c, s.BlackBox(), &ic)
		},
		Run: func(c *CheckCtx) {
			c.rule = "triples (host, fragment, boundary): hosts are corpus and generated programs; fragments use only identifiers with a reserved prefix, define no methods or classes and touch no builtin class (assignments of every literal type, conditionals with and without narrowing, blocks, array literals, builtin calls and operators on unions, while, case, top-level raise, return inside a block, generated mixes); the fragment is inserted before a statement that has a successor-or-self in the same body (top level and nested boundaries), or a whole independent program is appended. Oracle: host output (plain and -i) restricted to the host's own rows and mapped back equals the output without the fragment. distinct_nontrivial = distinct triples whose host run printed located records"
			c.assumptions = []string{"triples in which a run crashes or hangs are skipped (C01/C02)"}
			items := Corpus()
			r := c.RNG.Sub(11)
			modes := [][]string{{}, {"-i"}}
			var jobs []*indepCase
			add := func(host, origin string, lines []int) {
				if hasZqRe.MatchString(host) {
					return
				}
				hl := strings.Split(host, "\n")
				per := c.N(3, 12)
				for q := 0; q < per && len(lines) > 0; q++ {
					b := Pick(r, lines)
					// the fragment must be followed by a statement of the same body: a
					// comment or blank line may be all that is left before the body ends
					if b-1 >= len(hl) || closerRe.MatchString(hl[b-1]) {
						continue
					}
					if k := stmtKind(hl[b-1]); k == "comment" || k == "blank" {
						continue
					}
					f, kind := genFragment(r)
					jobs = append(jobs, &indepCase{Host: host, Fragment: f, Line: b, Mode: Pick(r, modes), Origin: origin, FragKind: kind, NextKind: stmtKind(hl[b-1])})
				}
				// append a whole independent program
				if r.Chance(1, 2) {
					p := genProgram(r, GenOpts{Prefix: "zq", Classes: true, NoErrors: true, Stmts: 4 + r.Intn(5)})
					h := host
					if !strings.HasSuffix(h, "\n") {
						h += "\n"
					}
					jobs = append(jobs, &indepCase{Host: h, Fragment: p.Render(nil).Text(), Line: len(strings.Split(h, "\n")), Mode: Pick(r, modes), Origin: origin, FragKind: "appended-program", NextKind: "eof"})
				}
			}
			for k := 0; k < c.N(100, len(items)); k++ {
				it := items[k%len(items)]
				if c.Quick() {
					it = Pick(r, items)
				}
				if len(it.Args) > 0 && it.Args[0] != "-i" {
					continue
				}
				add(it.Source, "corpus", safeBoundaries(it.Source))
			}
			for k := 0; k < c.N(100, 2500); k++ {
				p := genProgram(r, GenOpts{Classes: true, Stmts: 5 + r.Intn(10)})
				rd := p.Render(nil)
				var bs []int
				for i, l := range rd.Lines {
					if l.StartsAt != "" && i > 0 {
						bs = append(bs, i+1)
					}
				}
				add(rd.Text(), "generated", bs)
			}
			// hosts built from statements that are sensitive to state leaking from the
			// previous statement; the fragment goes right in front of each of them
			sens := []string{
				"if hx.is_a?(String)\n  dbtp hx\nelse\n  dbtp hx\nend", "unless hx.nil?\n  dbtp hx\nend", "hu.each do |he|\n  dbtp he\nend", "[1, 2].each do |hi|\n  dbtp hi\nend",
				"hy = hx.nil? ? 1 : 2\ndbtp hy", "dbtp hm(1)", "-1.abs", "[3, \"q\"].each { |hz| dbtp hz }", "(1..2).each do |hr|\n  dbtp hr\nend", ":sym.to_s", "\"str\".upcase",
				"hv = !hf\ndbtp hv", "case hn\nwhen 1\n  dbtp hn\nelse\n  dbtp hx\nend", "while hn < 1\n  hn = hn + 1\nend\ndbtp hn", "hh = {a: 1}\ndbtp hh[:a]", "ha = [1, \"s\"]\ndbtp ha[0]",
				"hx.zork", "hn + \"s\"", "ho = Hbox.new\ndbtp ho.get", "dbtp Hbox.make", "hw = hu\ndbtp hw", "return_free = 1\ndbtp return_free",
				// builtin operators on a union receiver, a method defined right here
				"dbtp hk * 2", "hq = hk + 1\ndbtp hq", "dbtp hx.to_s", "def hlabel(hp)\n  hp.to_s\nend\ndbtp hlabel(hn)",
			}
			prelude := "hf = true\nhx = hf ? \"a\" : 1\nhu = hf ? [1] : (1..2)\nhn = 0\nhk = hf ? 3 : 2.5\ndef hm(a)\n  a\nend\nclass Hbox\n  def get\n    1.5\n  end\n  def self.make\n    :m\n  end\nend\n"
			// every (sensitive statement, fragment kind) pair is covered in each pass
			passes := c.N(3, 24)
			total := passes * len(sens) * len(fragmentKinds)
			for k := 0; k < total; k++ {
				forcedStmt := sens[k%len(sens)]
				forcedKind := fragmentKinds[(k/len(sens))%len(fragmentKinds)]
				var sb strings.Builder
				sb.WriteString(prelude)
				n := 1 + r.Intn(3)
				var starts []int
				inDef := r.Chance(1, 4)
				ind := ""
				if inDef && strings.HasPrefix(forcedStmt, "def ") {
					inDef = false // a method is defined at top level
				}
				if inDef {
					sb.WriteString("def hwrap(hx, hu, hn, hf, hk)\n")
					ind = "  "
				}
				target := r.Intn(n)
				for q := 0; q < n; q++ {
					starts = append(starts, strings.Count(sb.String(), "\n")+1)
					st := Pick(r, sens)
					for inDef && strings.HasPrefix(st, "def ") {
						st = Pick(r, sens)
					}
					if q == target {
						st = forcedStmt
					}
					for _, l := range strings.Split(st, "\n") {
						sb.WriteString(ind + l + "\n")
					}
				}
				if inDef {
					sb.WriteString("  nil\nend\nhwrap(hx, hu, hn, hf, hk)\n")
				}
				host := sb.String()
				hl := strings.Split(host, "\n")
				b := starts[target]
				f, kind := genFragmentKind(r, forcedKind)
				jobs = append(jobs, &indepCase{Host: host, Fragment: f, Line: b, Mode: Pick(r, modes), Origin: "sensitive", FragKind: kind, NextKind: stmtKind(hl[b-1])})
			}
			c.Extra("triples", len(jobs))
			c.Eng.Map(len(jobs), func(s *Slot, i int) {
				ic := jobs[i]
				if i%301 == 0 {
					c.Sample(map[string]any{"fragment": ic.Fragment, "line": ic.Line, "mode": ic.Mode, "origin": ic.Origin, "next": ic.NextKind, "host": clip(ic.Host, 300)})
				}
				if v := exploreThenJudge(c, s, func(rn Runner) *Violation { return judgeIndep(c, rn, ic) }); v != nil {
					c.Report(v)
				}
			})
		}})
}

// ---------------------------------------------------------------------------
// C13: consistent renaming changes only the names

type renameCase struct {
	SourceA string            `json:"source_a"`
	SourceB string            `json:"source_b"`
	Map     map[string]string `json:"map"` // name in A -> name in B
	Mode    []string          `json:"mode"`
	Origin  string            `json:"origin"`
	Kinds   string            `json:"kinds"` // which lexical categories were renamed, with name-length classes
}

func substWords(s string, m map[string]string) string {
	if len(m) == 0 {
		return s
	}
	keys := make([]string, 0, len(m))
	for k := range m {
		keys = append(keys, regexp.QuoteMeta(k))
	}
	sort.Slice(keys, func(i, j int) bool { return len(keys[i]) > len(keys[j]) })
	re := regexp.MustCompile(`(^|[^A-Za-z0-9_])(` + strings.Join(keys, "|") + `)([^A-Za-z0-9_?!]|[?!]|$)`)
	// apply twice for adjacent matches sharing a delimiter
	f := func(x string) string {
		return re.ReplaceAllStringFunc(x, func(w string) string {
			sm := re.FindStringSubmatch(w)
			return sm[1] + m[sm[2]] + sm[3]
		})
	}
	return f(f(s))
}

func judgeRename(c *CheckCtx, rn Runner, rc *renameCase) *Violation {
	argv := append([]string{targetFile}, rc.Mode...)
	o1, ok1 := relRun(c, rn, &Exec{Files: map[string]string{targetFile: rc.SourceA}, Argv: argv})
	o2, ok2 := relRun(c, rn, &Exec{Files: map[string]string{targetFile: rc.SourceB}, Argv: argv})
	if !ok1 || !ok2 {
		c.Event("skipped_crash_or_hang", 1)
		return nil
	}
	want := parseOut(substWords(o1, rc.Map))
	got := parseOut(o2)
	if len(want) > 0 {
		c.Event("pairs_with_output", 1)
		c.Nontrivial(strings.Join(rc.Mode, " ") + "\x00" + rc.SourceA + "\x00" + rc.SourceB)
	}
	if sameRecs(want, got) {
		return nil
	}
	return &Violation{Sig: "rename:" + rc.Kinds + ":" + diffTemplate(want, got), Kind: "rename", Case: mustJSON(rc),
		What:     fmt.Sprintf("renaming %s (%s program, argv %v) changes more than the names: %v", rc.Kinds, rc.Origin, rc.Mode, rc.Map),
		Expected: clip(fmtRecs(want), 3000), Observed: clip(fmtRecs(got), 3000)}
}

var freshLocals = map[string][]string{
	"1":  {"q", "w", "z", "j", "u"},
	"2":  {"qx", "wz", "zj", "uq"},
	"8":  {"qwertzui", "zzlocalx", "jjvalueq"},
	"30": {"qqqq_very_long_local_name_zz01", "wwww_another_long_identifier_9"},
	// same lexical category, unusual spelling: leading or trailing underscore,
	// digits, an inner capital
	"shape": {"_q", "_zz9", "_num_q", "q_", "qZ", "q9", "__q"},
}
var freshMethods = map[string][]string{
	"1":  {"k", "g", "y"},
	"2":  {"kx", "gy", "yk"},
	"8":  {"kkmethod", "ggroutin", "yyhelper"},
	"30": {"kkkk_very_long_method_name_zz01", "gggg_another_long_method_nam_9"},
	"shape": {"_k", "k9", "k_x", "kX", "_kk_"},
}
var freshClasses = map[string][]string{
	"1":  {"Q", "X", "Z"},
	"2":  {"Qx", "Xz", "Zq"},
	"8":  {"Qwertzui", "Xyclassq", "Zzwidget"},
	"30": {"QqqqVeryLongClassNameForTest01", "XxxxAnotherLongClassNameTest09"},
	// acronym-prefixed CamelCase, digits and underscores after the capital
	"shape": {"HTTPClientq", "IOq", "DBc", "XMLHolderq", "Q9x", "Q_x", "QQq"},
}

// bindingForms are small programs in which AA (and BB) are locals bound by
// something other than a plain assignment; the rename family substitutes fresh
// names for them.
var bindingForms = []struct{ Name, Src string }{
	{"array-pattern", "pair = [1, 2.5]\ncase pair\nin [AA, BB]\n  dbtp AA\n  AA.upcase\n  dbtp BB\nend\n"},
	{"array-pattern-rest", "list = [1, 2, 3]\ncase list\nin [AA, *BB]\n  dbtp AA\n  AA.upcase\n  dbtp BB\nend\n"},
	{"class-pattern", "val = 5\ncase val\nin Integer => AA\n  dbtp AA\n  AA.upcase\nend\n"},
	{"hash-pattern", "cfg = {name: \"n\", age: 3}\ncase cfg\nin {name: String => AA, age: Integer => BB}\n  dbtp AA\n  dbtp BB\n  BB.upcase\nend\n"},
	{"block-params", "[1, 2].each_with_index do |AA, BB|\n  dbtp AA\n  dbtp BB\n  AA.upcase\nend\n"},
	{"brace-block-param", "[\"a\"].each { |AA| dbtp AA\n  AA.abs }\n"},
	{"multiple-assignment", "AA, BB = 1, \"s\"\ndbtp AA\ndbtp BB\nAA.upcase\n"},
	{"or-assign", "AA = nil\nAA ||= 1\ndbtp AA\nBB = 2\nBB += 1\ndbtp BB\nBB.upcase\n"},
	{"for-loop", "for AA in [1, 2]\n  dbtp AA\n  AA.upcase\nend\n"},
	{"rescue-binding", "begin\n  BB = 1\nrescue => AA\n  dbtp AA\nend\ndbtp BB\nBB.upcase\n"},
	{"parameters", "def take(AA, BB = 2, *rest)\n  dbtp AA\n  dbtp BB\n  AA.upcase\nend\ntake(1)\ntake(3, 4.5)\n"},
	{"keyword-parameters", "def opts(AA:, BB: 2)\n  dbtp AA\n  dbtp BB\n  AA.upcase\nend\nopts(AA: 1)\nopts(AA: 3, BB: 4.5)\n"},
	{"block-local-shadow", "AA = \"outer\"\n[1].each do |AA|\n  dbtp AA\nend\ndbtp AA\nAA.abs\n"},
	{"string-interpolation", "AA = 1\nBB = \"v#{AA}\"\ndbtp BB\nAA.upcase\n"},
	{"conditional-assignment", "flag = true\nAA = flag ? 1 : nil\nif AA.nil?\n  dbtp AA\nelse\n  dbtp AA\nend\nBB = AA\ndbtp BB\n"},
	{"user-class", "class CC\n  def initialize(AA)\n    @v = AA\n  end\n  def get\n    @v\n  end\n  def self.make\n    CC.new(1)\n  end\nend\nBB = CC.new(2)\ndbtp BB\ndbtp BB.get\ndbtp CC.make\nBB.nope\nCC.new\n"},
	{"user-class-namespaced", "module Outer\n  class CC\n    def get\n      1\n    end\n  end\nend\nBB = Outer::CC.new\ndbtp BB\ndbtp BB.get\nBB.nope\n"},
	{"user-class-inherit", "class Base9\n  def base_m\n    1\n  end\nend\nclass CC < Base9\nend\nBB = CC.new\ndbtp BB.base_m\nBB.nope\nCC.zork\n"},
}

// genAccessorProgram builds a class with getter/setter/predicate methods,
// keyword parameters and instance variables, all renameable.
func genAccessorProgram(r *RNG) *Program {
	p := &Program{Names: map[string]string{}, Kinds: map[string]string{}}
	n := 0
	id := func(kind, def string) string {
		n++
		k := fmt.Sprintf("%s:%d", kind, n)
		p.Names[k] = def
		p.Kinds[k] = kind
		return ph(k)
	}
	cl := id("class", "Holder")
	g := id("method", "val")
	g2 := id("method", "size2")
	pr := id("method", "ready")
	m := id("method", "configure")
	pa, pb := id("local", "arg"), id("local", "other")
	k1, k2, k3 := id("kw", "width"), id("kw", "height"), id("kw", "depth")
	v1, v2 := id("local", "box"), id("local", "res")
	lit := func() string { return Pick(r, []string{"1", "\"s\"", "1.5", ":sym"}) }
	var lines []string
	add := func(l ...string) { lines = append(lines, l...) }
	iv1, iv2, iv3 := "@"+id("ivar", "slot"), "@"+id("ivar", "slot2"), "@"+id("ivar", "spare")
	if r.Bool() {
		// the setter writes another variable than the getter reads
		add("class "+cl, "  def "+g+"=("+pa+")", "    "+iv3+" = "+pa, "  end", "  def "+g, "    "+iv1, "  end")
	} else {
		add("class "+cl, "  def "+g, "    "+iv1, "  end", "  def "+g+"=("+pa+")", "    "+iv1+" = "+pa, "  end")
	}
	if r.Bool() {
		add("  def "+g2+"=("+pa+")", "    "+iv2+" = "+pa, "  end", "  def "+g2, "    "+iv2, "  end")
	}
	wo := id("method", "label")
	add("  def "+wo+"=("+pa+")", "    "+iv3+" = "+pa, "  end")
	add("  def "+pr+"?", "    true", "  end")
	add("  def "+m+"("+pb+", "+k1+": 1, "+k2+": \"s\", "+k3+": 1.5)", "    dbtp "+k1, "    dbtp "+k2, "    dbtp "+k3, "    "+Pick(r, []string{k1, k2, k3}), "  end", "end")
	add(v1+" = "+cl+".new", "dbtp "+v1+"."+g, v1+"."+g+" = "+lit(), "dbtp "+v1+"."+g)
	if strings.Contains(strings.Join(lines, "\n"), g2) {
		add(v1+"."+g2+" = "+lit(), "dbtp "+v1+"."+g2)
	}
	add(v1+"."+wo+" = "+lit(), "dbtp "+v1+"."+wo)
	add("dbtp "+v1+"."+pr+"?")
	kws := []string{k1 + ": " + lit(), k2 + ": " + lit(), k3 + ": " + lit()}
	Shuffle(r, kws)
	add(v2+" = "+v1+"."+m+"(1, "+strings.Join(kws[:1+r.Intn(3)], ", ")+")", "dbtp "+v2)
	for _, l := range lines {
		p.Nodes = append(p.Nodes, &Node{Kind: "raw", Head: l})
	}
	return p
}

// adjacentName derives a fresh name from another identifier of the program:
// names that only differ in a trailing digit, a prefix or a suffix.
func adjacentName(r *RNG, other string, kind string) string {
	if other == "" {
		return ""
	}
	var c string
	switch r.Intn(5) {
	case 0:
		c = other + "1"
	case 1:
		c = other + "_"
	case 2:
		c = other + "x"
	case 3:
		if len(other) > 2 {
			c = other[:len(other)-1]
		} else {
			c = other + "q"
		}
	default:
		c = "a" + other
	}
	if kind == "class" {
		c = strings.ToUpper(c[:1]) + c[1:]
		if !strings.ContainsAny(c[1:], "abcdefghijklmnopqrstuvwxyz") {
			c += "q"
		}
	}
	return c
}

var assignedLocalRe = regexp.MustCompile(`(?m)^\s*([a-z_][a-z0-9_]*)\s*=[^=~]`)

func init() {
	register(&Check{ID: "C13", Title: "consistent renaming changes only the names",
		Replay: func(c *CheckCtx, s *Slot, v *Violation) *Violation {
			var rc renameCase
			if json.Unmarshal(v.Case, &rc) != nil {
				return nil
			}
			return judgeRename(c, s.BlackBox(), &rc)
		},
		Run: func(c *CheckCtx) {
			c.rule = "pairs (program, renaming): generated programs are rendered twice from one AST with different names for a chosen subset of its locals, user methods and user classes (fresh names of 1, 2, 8 and 30 characters and of unusual shape: leading/trailing underscore, digits, inner capital, acronym-prefixed class names; class names CamelCase or one capital letter; never a configured class/method name or keyword); corpus programs get one local renamed when every occurrence is an unambiguous whole-word token; 18 binding-form templates (array/class/hash patterns, block parameters, multiple and or-assignment, for, rescue, positional and keyword parameters, shadowing, interpolation, classes referenced by new/class method/namespace/superclass) get their locals and class renamed. Oracle: out(renamed) == out(original) with the same substitution applied to the text (plain and -i). distinct_nontrivial = distinct pairs whose original run printed located records"
			c.assumptions = []string{"pairs in which a run crashes or hangs are skipped (C01/C02)", "names in the original rendering carry a reserved prefix so that the textual substitution on the output is unambiguous"}
			r := c.RNG.Sub(13)
			modes := [][]string{{}, {"-i"}}
			var jobs []*renameCase
			for k := 0; k < c.N(450, 12000); k++ {
				p := genProgram(r, GenOpts{Classes: true, Stmts: 5 + r.Intn(10)})
				if k%3 == 0 {
					p = genAccessorProgram(r)
				}
				// distinctive names for rendering A
				nameA := map[string]string{}
				ids := make([]string, 0, len(p.Names))
				for id := range p.Names {
					ids = append(ids, id)
				}
				sort.Strings(ids)
				for i, id := range ids {
					switch p.Kinds[id] {
					case "local":
						nameA[id] = fmt.Sprintf("vqa%d", i)
					case "method":
						nameA[id] = fmt.Sprintf("mqa%d", i)
					case "class":
						nameA[id] = fmt.Sprintf("Cqa%dx", i)
					case "kw":
						nameA[id] = fmt.Sprintf("kqa%d", i)
					case "ivar":
						nameA[id] = fmt.Sprintf("iqa%d", i)
					}
				}
				nameB := map[string]string{}
				for k2, v := range nameA {
					nameB[k2] = v
				}
				m := map[string]string{}
				used := map[string]bool{}
				var kinds []string
				Shuffle(r, ids)
				nren := 1 + r.Intn(3)
				for _, id := range ids {
					if nren == 0 {
						break
					}
					kind := p.Kinds[id]
					var pool map[string][]string
					switch kind {
					case "local":
						pool = freshLocals
					case "method":
						pool = freshMethods
					case "class":
						pool = freshClasses
					case "kw", "ivar":
						pool = freshLocals
					default:
						continue
					}
					lc := Pick(r, []string{"1", "2", "8", "30", "adjacent", "shape"})
					var fresh string
					if lc == "same-as-ivar" {
						// the name of an identifier of another lexical category (a method
						// called like an instance variable, a keyword like an ivar, ...)
						var others []string
						for _, oid := range ids {
							// only the spelling of an instance variable without its '@' is used:
							// as an identifier token that name does not occur in the program,
							// so it still is a fresh name
							ok := p.Kinds[oid] == "ivar" && kind != "ivar" && kind != "class"
							if ok {
								others = append(others, nameB[oid])
							}
						}
						if len(others) == 0 {
							continue
						}
						fresh = Pick(r, others)
						for oid, v := range nameB {
							if v == fresh && p.Kinds[oid] == kind {
								fresh = ""
							}
						}
						if fresh == "" {
							continue
						}
						used[fresh] = false
					} else if lc == "adjacent" {
						// next to another identifier of the same rendering
						var others []string
						for _, oid := range ids {
							if oid != id && p.Kinds[oid] == kind {
								others = append(others, nameB[oid])
							}
						}
						if len(others) == 0 {
							continue
						}
						fresh = adjacentName(r, Pick(r, others), kind)
						for _, v := range nameB {
							if v == fresh {
								fresh = ""
							}
						}
						if fresh == "" || rubyKeywords[fresh] {
							continue
						}
					} else {
						fresh = Pick(r, pool[lc])
					}
					if used[fresh] {
						continue
					}
					used[fresh] = true
					nameB[id] = fresh
					m[nameA[id]] = fresh
					kinds = append(kinds, kind+"/"+lc)
					nren--
				}
				if len(m) == 0 {
					continue
				}
				sort.Strings(kinds)
				jobs = append(jobs, &renameCase{SourceA: p.Render(nameA).Text(), SourceB: p.Render(nameB).Text(), Map: m, Mode: Pick(r, modes), Origin: "generated", Kinds: strings.Join(dedup(kinds), "+")})
			}
			// corpus: one local per program
			items := Corpus()
			for k := 0; k < c.N(120, len(items)*2); k++ {
				it := items[k%len(items)]
				if c.Quick() {
					it = Pick(r, items)
				}
				if len(it.Args) > 0 && it.Args[0] != "-i" {
					continue
				}
				cands := assignedLocalRe.FindAllStringSubmatch(it.Source, -1)
				if len(cands) == 0 {
					continue
				}
				name := Pick(r, cands)[1]
				if len(name) < 2 || tokenIsAmbiguous(it.Source, name) {
					continue
				}
				lc := Pick(r, []string{"1", "2", "8", "30", "shape"})
				fresh := Pick(r, freshLocals[lc])
				if regexp.MustCompile(`\b` + fresh + `\b`).MatchString(it.Source) {
					continue
				}
				m := map[string]string{name: fresh}
				jobs = append(jobs, &renameCase{SourceA: it.Source, SourceB: substWords(it.Source, m), Map: m, Mode: Pick(r, modes), Origin: "corpus", Kinds: "local/" + lc})
			}
			// binding forms: locals bound by patterns, block parameters, multiple
			// assignment, rescue, for, parameters; classes referenced in every way
			for k := 0; k < c.N(4, 40); k++ {
				for _, bf := range bindingForms {
					lens := []string{"1", "2", "8", "30", "shape", "shape"}
					la, lb, lcl := Pick(r, lens), Pick(r, lens), Pick(r, lens)
					fa, fb := Pick(r, freshLocals[la]), Pick(r, freshLocals[lb])
					if fa == fb {
						continue
					}
					fc := Pick(r, freshClasses[lcl])
					inst := func(a, b, cn string) string {
						return strings.NewReplacer("AA", a, "BB", b, "CC", cn).Replace(bf.Src)
					}
					m := map[string]string{"aa": fa}
					if strings.Contains(bf.Src, "BB") {
						m["bb"] = fb
					}
					if strings.Contains(bf.Src, "CC") {
						m["Cc"] = fc
					}
					jobs = append(jobs, &renameCase{SourceA: inst("aa", "bb", "Cc"), SourceB: inst(fa, fb, fc), Map: m, Mode: Pick(r, modes), Origin: "binding-form:" + bf.Name, Kinds: "local/" + la + "+local/" + lb + "+class/" + lcl})
				}
			}
			c.Extra("pairs", len(jobs))
			c.Eng.Map(len(jobs), func(s *Slot, i int) {
				rc := jobs[i]
				if i%401 == 0 {
					c.Sample(map[string]any{"map": rc.Map, "mode": rc.Mode, "origin": rc.Origin, "source": clip(rc.SourceA, 300)})
				}
				if v := exploreThenJudge(c, s, func(rn Runner) *Violation { return judgeRename(c, rn, rc) }); v != nil {
					c.Report(v)
				}
			})
		}})
}

// tokenIsAmbiguous: the word also occurs as a method name, symbol, keyword
// label, instance variable, inside a string or comment - then a textual
// rename would not be a consistent renaming of one local.
func tokenIsAmbiguous(src, name string) bool {
	q := regexp.QuoteMeta(name)
	for _, pat := range []string{`\.` + q + `\b`, `:` + q + `\b`, `\b` + q + `:`, `@` + q + `\b`, `def\s+(self\.)?` + q + `\b`, `\b` + q + `\s*\(`, `\$` + q, `\b` + q + `[?!]`} {
		if regexp.MustCompile(pat).MatchString(src) {
			return true
		}
	}
	for _, line := range strings.Split(src, "\n") {
		if !regexp.MustCompile(`\b` + q + `\b`).MatchString(line) {
			continue
		}
		if strings.ContainsAny(line, "\"'#`%/") {
			return true
		}
	}
	// must not be a known method or keyword
	if rubyKeywords[name] {
		return true
	}
	return false
}

var rubyKeywords = map[string]bool{"p": true, "puts": true, "print": true, "self": true, "nil": true, "true": true, "false": true, "end": true, "if": true, "in": true, "do": true, "or": true, "and": true, "not": true, "loop": true, "rand": true, "sleep": true, "raise": true, "require": true, "lambda": true, "proc": true, "gets": true}
