package main

import (
	"regexp"
	"strings"
	"unicode/utf8"
)

// ---------------------------------------------------------------------------
// source mutators shared by the robustness checks (C01, C02, C04)

var roughTokRe = regexp.MustCompile(`(?s)"(?:[^"\\\n]|\\.)*"|'(?:[^'\\\n]|\\.)*'|#[^\n]*|[A-Za-z_@$][A-Za-z0-9_]*[?!]?|\d[\d_]*(?:\.\d+)?|\n|[ \t]+|<<~?[A-Z_]+|&\.|\|\||&&|=>|->|==|!=|<=|>=|\+=|-=|\*\*|::|\.\.\.?|.`)

// roughTokens splits source text into lexeme-like pieces (concatenation of
// the pieces is the text).
func roughTokens(src string) []string {
	return roughTokRe.FindAllString(src, -1)
}

var tokenDict = []string{
	"def", "end", "class", "module", "if", "unless", "elsif", "else", "while", "until", "for", "in", "do", "case", "when",
	"begin", "rescue", "ensure", "return", "yield", "self", "nil", "true", "false", "then", "and", "or", "not", "private",
	"protected", "public", "attr_accessor", "attr_reader", "include", "extend", "new", "dbtp", "p", "puts", "raise",
	"(", ")", "[", "]", "{", "}", "|", ",", ".", "&.", "::", ":", ";", "=", "==", "=>", "->", "+", "-", "*", "/", "%", "<", ">",
	"<<", "<=", ">=", "!", "?", "&&", "||", "||=", "+=", "..", "...", "\"", "'", "#", "#{", "\n", " ", "@", "@@", "$", "*a", "**k", "&b",
	"x", "Foo", "FOO", "foo:", ":foo", "1", "1.5", "\"s\"", "[1]", "{a: 1}", "x.y", "Foo.new", "a: 1", "<<~EOS", "%w", "%i", "`", "\\", "\x00", "\xff",
	"|a, b|", "do |x|", "{ |x| x }", "def f(a, b = 1, *c, d:, e: 2, &blk)", "class A < B", "class << self", "x = ", "x ? 1 : \"a\"", "x.nil?", "x.is_a?(Integer)",
}

// mutateTokens applies 1-3 token-level edits.
func mutateTokens(r *RNG, src string) string {
	toks := roughTokens(src)
	if len(toks) == 0 {
		return Pick(r, tokenDict)
	}
	n := 1 + r.Intn(3)
	for k := 0; k < n; k++ {
		i := r.Intn(len(toks))
		switch r.Intn(7) {
		case 0: // delete
			toks = append(toks[:i:i], toks[i+1:]...)
		case 1: // duplicate
			toks = append(toks[:i+1:i+1], toks[i:]...)
		case 2: // swap with neighbour
			if i+1 < len(toks) {
				toks[i], toks[i+1] = toks[i+1], toks[i]
			}
		case 3: // replace
			toks[i] = Pick(r, tokenDict)
		case 4: // insert
			t := Pick(r, tokenDict)
			toks = append(toks[:i:i], append([]string{t}, toks[i:]...)...)
		case 5: // delete a line
			lines := strings.SplitAfter(strings.Join(toks, ""), "\n")
			if len(lines) > 1 {
				j := r.Intn(len(lines))
				lines = append(lines[:j:j], lines[j+1:]...)
			}
			toks = roughTokens(strings.Join(lines, ""))
		case 6: // replace by another token of the same program
			toks[i] = toks[r.Intn(len(toks))]
		}
		if len(toks) == 0 {
			break
		}
	}
	return strings.Join(toks, "")
}

// cutPrefix returns a prefix of src ending at a rune boundary chosen to be
// "interesting" (after punctuation, at line ends, mid identifier).
func cutPrefix(r *RNG, src string) string {
	if len(src) == 0 {
		return src
	}
	switch r.Intn(4) {
	case 0: // line boundary, newline kept or dropped
		idx := allIndexes(src, "\n")
		if len(idx) > 0 {
			p := Pick(r, idx)
			if r.Bool() {
				return src[:p+1]
			}
			return src[:p]
		}
	case 1: // right after a punctuation character
		var idx []int
		for i := 0; i < len(src); i++ {
			switch src[i] {
			case '.', '(', '[', '{', '"', '\'', '#', '|', ',', '=', '<', '>', '%', ':', '&', '@', '*', '\\':
				idx = append(idx, i+1)
			}
		}
		if len(idx) > 0 {
			return src[:Pick(r, idx)]
		}
	case 2: // token boundary
		toks := roughTokens(src)
		k := r.Intn(len(toks) + 1)
		return strings.Join(toks[:k], "")
	}
	p := r.Intn(len(src) + 1)
	for p > 0 && p < len(src) && !utf8.RuneStart(src[p]) {
		p--
	}
	return src[:p]
}

func allIndexes(s, sub string) []int {
	var out []int
	off := 0
	for {
		i := strings.Index(s[off:], sub)
		if i < 0 {
			return out
		}
		out = append(out, off+i)
		off += i + len(sub)
	}
}

// hostileStrings is a fixed list of inputs that end in awkward places.
func hostileStrings() []string {
	base := []string{
		"", "\n", " ", "#", "# c", "x = 1 # c", "\"", "'", "\"abc", "'abc", "x = \"abc", "x = 'a\\", "%", "%w", "%w[", "%q", "<", ">", "<<", "<<~EOS", "<<~EOS\nabc", "x <", "x >",
		"a:\"", "a:\"b", "f(a:\"", ".", "x.", "x.\n", "x&.", "Foo.", "Foo::", "::", "@", "@x.", "@@", "$", "def", "def ", "def f", "def f(", "def f(a", "def f(a,", "def f(a = ", "def f(*", "def f(**", "def f(&",
		"def f(a:", "def x.y", "def self.", "def self", "def f = ", "def f() = ", "class", "class ", "class A", "class A <", "class A < ", "class <<", "class << self", "module", "module ", "module M",
		"module M::", "if", "if ", "if x", "if x\n", "unless", "while", "while ", "while x", "until ", "for", "for ", "for i", "for i in", "for i in ", "case", "case ", "case x", "case x\n", "case x\nwhen", "case x\nin",
		"case x\nin [", "case x\nin {", "case x\nin {a:", "case x\nin (", "case [1]\nin [Integer", "begin", "begin\n", "begin\nrescue", "begin\nrescue =>", "rescue", "ensure", "end", "end\nend", "do", "[1].each do", "[1].each do |",
		"[1].each do |a", "[1].each do |a,", "[1].each {", "[1].each { |", "[1].each { |a", "{", "{a:", "{a: 1", "{a: 1,", "{\"a\" =>", "[", "[1", "[1,", "[[", "(", "(1", "((", "x[", "x[1", "\"s\"[", "1[", "x = [", "x = {",
		"attr_accessor", "attr_accessor ", "attr_accessor :", "attr_reader :a,", "include", "include ", "extend ", "private", "private def", "return", "return ", "yield", "yield(", "raise", "raise ", "x = ", "x ||= ", "x += ",
		"x, y", "x, y = ", "x, y = 1,", "*", "* ", "*a", "**", "&", "&&", "|", "||", "!", "!x", "!!", "?", "x ?", "x ? 1", "x ? 1 :", ":", ":a", "a:", "->", "-> {", "->(", "lambda {", "1.", "1..", "1...", "1..2", "1.5.", "1e", "0x",
		"0b", "1_", "-", "-1", "- 1", "+", "+1", "x -1", "x - ", "=", "==", "===", "=>", "=begin", "=begin\nfoo", "=end", "__END__", "\\", "x \\", "x \\\n", "`", "`ls`", "x = `", "\x00", "x=1\n\x00y=2\n", "\xff\xfe", "x = \"\xff\"",
		"\r\n", "x = 1\r\ny = 2\r\n", "\t", "\v\f", "\u00a0", "\u3000x = 1", "日本語", "x = \"日本語\"", "é = 1", "def é; end", "#{", "\"#{", "\"#{x", "\"#{x}", "\"a#{\"b#{", "'#{'", "%w[a b", "%i[a", "/", "/a", "/a/", "x = /a", "x / 2",
		"dbtp", "dbtp ", "dbtp(", "dbp", "dbp ", "p", "p ", "p(", "puts", "self", "self.", "nil", "nil.", "true.", "1.+", "1.+(", "1 +", "1 + ", "\"a\" +", "[1] +", "[1] + ", "[1].replace", "[1].replace(", "[1].collect()", "[1].min(1,1)",
		"[1].shift(1,true,true)", "[1].push", "[1] <<", "{a: 1}.merge", "{a: 1}.merge(", "{}.shift(", "x.class", "Foo.new.", "Foo.new(", "a.b.c.d.e.f.g.h", "a&.b&.c", "A::B::C::D", "A::", "::A",
	}
	out := append([]string{}, base...)
	// the same endings after a complete statement, and inside nested bodies
	for _, b := range base {
		if b == "" {
			continue
		}
		out = append(out, "x = 1\n"+b)
	}
	for _, b := range base[:len(base)/2] {
		out = append(out, "class Foo\n  def bar(a)\n    "+b)
	}
	// runes with special roles in lexers, at statement start / end / in operands
	for _, r := range []string{"\x01", "\x07", "\x1a", "\x1b", "\x7f", "\u0085", "\u009b", "\u00a0", "\u200b", "\u2028", "\u3000", "\ufeff", "\uff15", "\u0663", "\u0969", "\u00b2", "\U0001f600", "\u0301"} {
		out = append(out, "x = 1\n"+r+"\ndbtp x\n", r+"x = 1\ndbtp x\n", "x = "+r+"\ndbtp x\n", "x = 1"+r+"\ndbtp x\n", "x = 1 +"+r+"\n", "def f"+r+"(a)\nend\n", "x."+r+"\n")
	}
	// deep nesting and long lines
	out = append(out,
		strings.Repeat("(", 3000), strings.Repeat("[", 300), strings.Repeat("{", 3000),
		strings.Repeat("(", 500)+"1"+strings.Repeat(")", 500),
		strings.Repeat("[", 150)+"1"+strings.Repeat("]", 150),
		strings.Repeat("if x\n", 300), strings.Repeat("if x\n", 60)+strings.Repeat("end\n", 60),
		strings.Repeat("class A\n", 200), strings.Repeat("def f\n", 200), strings.Repeat("[1].each do |a|\n", 200),
		"x = "+strings.Repeat("1 + ", 3000)+"1\n", "x = \""+strings.Repeat("a", 100000)+"\"\n",
		"x"+strings.Repeat(".y", 3000)+"\n", strings.Repeat("x = 1\n", 5000), "x = ["+strings.Repeat("1, ", 5000)+"1]\n",
		strings.Repeat("a = b = ", 500)+"1\n", strings.Repeat("!", 2000)+"x\n", strings.Repeat("-", 2000)+"1\n",
		strings.Repeat("x ? ", 300)+"1"+strings.Repeat(" : 2", 300)+"\n",
		strings.Repeat("\"#{", 200), strings.Repeat("f(", 1000), strings.Repeat("f ", 1000),
		// inheritance cycles (C02)
		"class A < B\nend\nclass B < A\nend\nA.new.foo\n", "class A < A\nend\nA.new.foo\nA.bar\n",
		"class A < B\nend\nclass B < C\nend\nclass C < A\nend\nA.new.foo\nx = C.new\nx.zzz\n",
		"module M\n  include M\nend\nclass K\n  include M\nend\nK.new.foo\n",
		"module M\n  include N\nend\nmodule N\n  include M\nend\nclass K\n  include M\n  extend N\nend\nK.new.foo\nK.bar\n",
		"class Integer < String\nend\n1.foo\n", "class String < Integer\nend\nclass Integer < String\nend\n\"a\".foo\n1.bar\n",
		"class A < B\n  def m\n    super\n  end\nend\nclass B < A\n  def m\n    super\n  end\nend\nA.new.m\n",
		"class A\n  extend A\nend\nA.foo\n", "class A\n  include A\nend\nA.new.foo\n",
		"def f\n  f\nend\nf\n", "def f(a)\n  g(a)\nend\ndef g(a)\n  f(a)\nend\nf(1)\n",
		"def f(a)\n  f(f(a))\nend\ndbtp f(1)\n",
	)
	return out
}
