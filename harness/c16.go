package main

import (
	"encoding/json"
	"fmt"
	"sort"
	"strings"
)

// ---------------------------------------------------------------------------
// C16: user classes - resolution, inheritance and visibility follow Ruby.
//
// Generated hierarchies: classes in superclass chains (depth 1-4), modules
// that are included (instance methods) or extended (class methods),
// `def self.`/`class << self` class methods, reopenings, nested namespaces,
// initialize with required/optional parameters, private and protected
// sections (with `public` switching back), class names that collide with
// classes the shipped configuration declares in other frames. Every method
// returns a literal of a known class, so the method a call resolved to is
// visible in the printed type. The model computes Ruby's answer for every
// probe: the class of the nearest definition, "undefined", an arity error of
// `new`, or a visibility error.

type kMethod struct {
	Name string
	Ret  string // class of the literal it returns
	Vis  string // public | private | protected
	Body string // optional body line instead of the literal
}

type kClass struct {
	Name     string // short name
	Ns       string // enclosing module ("" = top level)
	Super    int    // index of the superclass, -1 = none
	Includes []int  // module indexes
	Extends  []int
	Inst     []kMethod
	Static   []kMethod // def self.x
	Meta     []kMethod // class << self
	Init     [2]int    // required, optional; -1 = no initialize
	InitTail string    // what follows the positionals of initialize: "", "*rest", "**opts", "*rest, **opts", "&blk", "*rest, &blk"
	Reopen   []kMethod // instance methods added by a later reopening
}

type kModule struct {
	Name string
	Meth []kMethod
}

type kExpect struct {
	Row  int    `json:"row"`
	Kind string `json:"kind"` // type | error | clean
	Want string `json:"want,omitempty"`
	What string `json:"what"`
	Feat string `json:"feat"`
}

type kCase struct {
	Source  string    `json:"source"`
	Expects []kExpect `json:"expects"`
}

func (c *kClass) qual() string {
	if c.Ns != "" {
		return c.Ns + "::" + c.Name
	}
	return c.Name
}

func genHierarchy(r *RNG) *kCase {
	scal := []string{"Integer", "String", "Float", "Symbol"}
	colliding := []string{"Base", "Relation", "Table", "Error"}
	plain := []string{"Alpha", "Beta", "Gamma", "Delta", "Omega", "Kappa"}
	var names []string
	names = append(names, colliding...)
	names = append(names, plain...)
	Shuffle(r, names)
	if r.Bool() {
		// make sure a colliding name is used early
		for i, n := range names {
			if contains(colliding, n) {
				names[0], names[i] = names[i], names[0]
				break
			}
		}
	}
	nmod := r.Intn(3)
	var mods []kModule
	for i := 0; i < nmod; i++ {
		m := kModule{Name: []string{"Mixa", "Mixb", "Mixc"}[i]}
		for j := 0; j <= r.Intn(2); j++ {
			m.Meth = append(m.Meth, kMethod{Name: fmt.Sprintf("mm%d_%d", i, j), Ret: Pick(r, scal), Vis: "public"})
		}
		mods = append(mods, m)
	}
	ncls := 1 + r.Intn(4)
	var cls []*kClass
	ns := ""
	if r.Chance(1, 3) {
		ns = "Space"
	}
	for i := 0; i < ncls; i++ {
		c := &kClass{Name: names[i], Super: -1, Init: [2]int{-1, 0}}
		if ns != "" && r.Bool() {
			c.Ns = ns
		}
		if i > 0 && r.Chance(3, 4) {
			c.Super = r.Intn(i)
			// a namespaced class inherits only from classes visible by short name or qualified
		}
		order := make([]int, len(mods))
		for k := range order {
			order[k] = k
		}
		Shuffle(r, order)
		for _, mi := range order {
			if r.Chance(1, 3) {
				c.Includes = append(c.Includes, mi)
			} else if r.Chance(1, 4) {
				c.Extends = append(c.Extends, mi)
			}
		}
		for _, n := range []string{"i0", "i1", "i2", "i3"} {
			if r.Chance(1, 2) {
				c.Inst = append(c.Inst, kMethod{Name: n, Ret: Pick(r, scal), Vis: "public"})
			}
		}
		if r.Chance(1, 2) {
			c.Inst = append(c.Inst, kMethod{Name: fmt.Sprintf("p%d", i), Ret: Pick(r, scal), Vis: "private"})
			c.Inst = append(c.Inst, kMethod{Name: fmt.Sprintf("viap%d", i), Ret: "", Vis: "public", Body: fmt.Sprintf("p%d", i)})
		}
		if r.Chance(1, 2) {
			c.Inst = append(c.Inst, kMethod{Name: fmt.Sprintf("q%d", i), Ret: Pick(r, scal), Vis: "protected"})
			c.Inst = append(c.Inst, kMethod{Name: fmt.Sprintf("viaq%d", i), Ret: "", Vis: "public", Body: fmt.Sprintf("other.q%d", i)})
		}
		if r.Chance(1, 2) {
			// a public method after the private/protected ones (`public` switches back)
			c.Inst = append(c.Inst, kMethod{Name: fmt.Sprintf("late%d", i), Ret: Pick(r, scal), Vis: "public"})
		}
		for _, n := range []string{"s0", "s1"} {
			if r.Chance(1, 3) {
				c.Static = append(c.Static, kMethod{Name: n, Ret: Pick(r, scal), Vis: "public"})
			}
		}
		if r.Chance(1, 3) {
			c.Meta = append(c.Meta, kMethod{Name: "s2", Ret: Pick(r, scal), Vis: "public"})
		}
		if r.Chance(1, 2) {
			c.Init = [2]int{r.Intn(3), r.Intn(2)}
			if r.Chance(1, 3) {
				c.InitTail = Pick(r, []string{"*rest", "**opts", "*rest, **opts", "&blk", "*rest, &blk", "*rest, **opts, &blk"})
			}
		}
		if r.Chance(1, 3) {
			c.Reopen = append(c.Reopen, kMethod{Name: fmt.Sprintf("re%d", i), Ret: Pick(r, scal), Vis: "public"})
			if r.Bool() && len(c.Inst) > 0 && c.Inst[0].Vis == "public" && c.Inst[0].Body == "" {
				// the reopening redefines a method
				c.Reopen = append(c.Reopen, kMethod{Name: c.Inst[0].Name, Ret: Pick(r, scal), Vis: "public"})
			}
		}
		cls = append(cls, c)
	}

	// ----- the model
	var findInst func(ci int, name string, depth int) *kMethod
	findInst = func(ci int, name string, depth int) *kMethod {
		if ci < 0 || depth > 10 {
			return nil
		}
		c := cls[ci]
		for i := len(c.Reopen) - 1; i >= 0; i-- {
			if c.Reopen[i].Name == name {
				return &c.Reopen[i]
			}
		}
		for i := range c.Inst {
			if c.Inst[i].Name == name {
				return &c.Inst[i]
			}
		}
		for _, mi := range c.Includes {
			for j := range mods[mi].Meth {
				if mods[mi].Meth[j].Name == name {
					return &mods[mi].Meth[j]
				}
			}
		}
		return findInst(c.Super, name, depth+1)
	}
	var findStatic func(ci int, name string, depth int) *kMethod
	findStatic = func(ci int, name string, depth int) *kMethod {
		if ci < 0 || depth > 10 {
			return nil
		}
		c := cls[ci]
		for i := range c.Static {
			if c.Static[i].Name == name {
				return &c.Static[i]
			}
		}
		for i := range c.Meta {
			if c.Meta[i].Name == name {
				return &c.Meta[i]
			}
		}
		for _, mi := range c.Extends {
			for j := range mods[mi].Meth {
				if mods[mi].Meth[j].Name == name {
					return &mods[mi].Meth[j]
				}
			}
		}
		return findStatic(c.Super, name, depth+1)
	}
	var findInit func(ci int, depth int) [2]int
	findInit = func(ci int, depth int) [2]int {
		if ci < 0 || depth > 10 {
			return [2]int{0, 0}
		}
		if cls[ci].Init[0] >= 0 {
			return cls[ci].Init
		}
		return findInit(cls[ci].Super, depth+1)
	}
	var initTail func(ci int, depth int) string
	initTail = func(ci int, depth int) string {
		if ci < 0 || depth > 8 {
			return ""
		}
		if cls[ci].Init[0] >= 0 {
			return cls[ci].InitTail
		}
		return initTail(cls[ci].Super, depth+1)
	}
	hasInit := func(ci int) bool {
		for d := 0; ci >= 0 && d < 10; ci, d = cls[ci].Super, d+1 {
			if cls[ci].Init[0] >= 0 {
				return true
			}
		}
		return false
	}
	resolveRet := func(ci int, m *kMethod) string {
		if m.Body == "" {
			return m.Ret
		}
		// viapN / viaqN: the class of the private/protected method they call
		target := strings.TrimPrefix(m.Body, "other.")
		if t := findInst(ci, target, 0); t != nil {
			return t.Ret
		}
		return ""
	}

	// ----- the program text
	kc := &kCase{}
	var lines []string
	emit := func(s string) { lines = append(lines, s) }
	row := func() int { return len(lines) + 1 }
	for _, m := range mods {
		emit("module " + m.Name)
		for _, me := range m.Meth {
			emit("  def " + me.Name)
			emit("    " + nLit(me.Ret))
			emit("  end")
		}
		emit("end")
	}
	refName := func(from *kClass, to *kClass) string {
		if to.Ns != "" && (from == nil || from.Ns != to.Ns) {
			return to.Ns + "::" + to.Name
		}
		return to.Name
	}
	for ci, c := range cls {
		ind := ""
		if c.Ns != "" {
			emit("module " + c.Ns)
			ind = "  "
		}
		head := "class " + c.Name
		if c.Super >= 0 {
			head += " < " + refName(c, cls[c.Super])
		}
		emit(ind + head)
		for _, mi := range c.Includes {
			emit(ind + "  include " + mods[mi].Name)
		}
		for _, mi := range c.Extends {
			emit(ind + "  extend " + mods[mi].Name)
		}
		if c.Init[0] >= 0 {
			var ps []string
			for k := 0; k < c.Init[0]; k++ {
				ps = append(ps, fmt.Sprintf("a%d", k))
			}
			for k := 0; k < c.Init[1]; k++ {
				ps = append(ps, fmt.Sprintf("o%d = 1", k))
			}
			if c.InitTail != "" {
				ps = append(ps, c.InitTail)
			}
			// initialize is private whatever section it is written in, and `new`
			// stays public: one class in four writes it below `private`
			switch r.Intn(8) {
			case 0:
				emit(ind + "  private")
				emit(ind + "  def initialize(" + strings.Join(ps, ", ") + ")")
				emit(ind + "  end")
				emit(ind + "  public")
			case 1:
				emit(ind + "  private def initialize(" + strings.Join(ps, ", ") + ")")
				emit(ind + "  end")
			default:
				emit(ind + "  def initialize(" + strings.Join(ps, ", ") + ")")
				emit(ind + "  end")
			}
		}
		for _, me := range c.Static {
			emit(ind + "  def self." + me.Name)
			emit(ind + "    " + nLit(me.Ret))
			emit(ind + "  end")
		}
		if len(c.Meta) > 0 {
			emit(ind + "  class << self")
			for _, me := range c.Meta {
				emit(ind + "    def " + me.Name)
				emit(ind + "      " + nLit(me.Ret))
				emit(ind + "    end")
			}
			emit(ind + "  end")
		}
		vis := "public"
		// how a non-public method gets its visibility: a section keyword, the
		// keyword in front of the definition (`private def m`), or a call naming
		// the method after it (`private :m`); the latter two leave the section
		// of the body alone
		visStyle := r.Intn(3)
		for _, me := range c.Inst {
			def := "def "
			if me.Vis != vis && (visStyle == 0 || me.Vis == "public") {
				emit(ind + "  " + me.Vis)
				vis = me.Vis
			} else if me.Vis != vis && visStyle == 1 {
				def = me.Vis + " def "
			}
			switch {
			case strings.HasPrefix(me.Name, "viaq"):
				emit(ind + "  def " + me.Name + "(other)")
				if resolveRet(ci, &me) != "" {
					kc.Expects = append(kc.Expects, kExpect{Row: row() + 0, Kind: "clean", What: "protected method called on another instance inside the hierarchy", Feat: "protected-inside"})
				}
				emit(ind + "    " + me.Body)
			case strings.HasPrefix(me.Name, "viap"):
				emit(ind + "  def " + me.Name)
				kc.Expects = append(kc.Expects, kExpect{Row: row(), Kind: "clean", What: "private method called with the implicit receiver", Feat: "private-implicit"})
				emit(ind + "    " + me.Body)
			default:
				emit(ind + "  " + def + me.Name)
				emit(ind + "    " + nLit(me.Ret))
			}
			emit(ind + "  end")
			if me.Vis != vis && visStyle == 2 {
				emit(ind + "  " + me.Vis + " :" + me.Name)
			}
		}
		emit(ind + "end")
		if c.Ns != "" {
			emit("end")
		}
	}
	// reopenings (after every class exists)
	for _, c := range cls {
		if len(c.Reopen) == 0 {
			continue
		}
		ind := ""
		if c.Ns != "" {
			emit("module " + c.Ns)
			ind = "  "
		}
		emit(ind + "class " + c.Name)
		for _, me := range c.Reopen {
			emit(ind + "  def " + me.Name)
			emit(ind + "    " + nLit(me.Ret))
			emit(ind + "  end")
		}
		emit(ind + "end")
		if c.Ns != "" {
			emit("end")
		}
	}
	// instances
	newArgs := func(n int) string {
		var a []string
		for k := 0; k < n; k++ {
			a = append(a, fmt.Sprintf("%d", k+1))
		}
		if n == 0 {
			return ""
		}
		return "(" + strings.Join(a, ", ") + ")"
	}
	for ci, c := range cls {
		in := findInit(ci, 0)
		nargs := in[0] + r.Intn(in[1]+1)
		if strings.Contains(initTail(ci, 0), "*rest") && nargs == in[0]+in[1] {
			nargs += r.Intn(3) // the rest parameter takes what is left
		}
		emit(fmt.Sprintf("o%d = %s.new%s", ci, c.qual(), newArgs(nargs)))
		kc.Expects = append(kc.Expects, kExpect{Row: row() - 1, Kind: "clean", What: "new with an argument count initialize accepts", Feat: "new-ok"})
	}
	probe := func(expr, want, what, feat string) {
		kind := "type"
		if want == "" {
			kind = "error"
		}
		kc.Expects = append(kc.Expects, kExpect{Row: row(), Kind: kind, Want: want, What: what, Feat: feat})
		emit("dbtp " + expr)
	}
	instNames := []string{"i0", "i1", "i2", "i3"}
	for ci, c := range cls {
		depth := 0
		for p := c.Super; p >= 0 && depth < 10; p = cls[p].Super {
			depth++
		}
		df := fmt.Sprintf("depth%d", depth)
		if contains(colliding, c.Name) {
			df += "+configured-name"
		}
		if c.Ns != "" {
			df += "+namespaced"
		}
		// instance methods by name (own, inherited, from modules, reopened, undefined)
		cands := append([]string{}, instNames...)
		for k := range cls {
			cands = append(cands, fmt.Sprintf("late%d", k), fmt.Sprintf("re%d", k), fmt.Sprintf("viap%d", k))
		}
		for _, m := range mods {
			for _, me := range m.Meth {
				cands = append(cands, me.Name)
			}
		}
		for _, n := range cands {
			if !r.Chance(2, 3) {
				continue
			}
			m := findInst(ci, n, 0)
			switch {
			case m == nil:
				probe(fmt.Sprintf("o%d.%s", ci, n), "", fmt.Sprintf("%s has no instance method %s in its ancestry", c.qual(), n), "undefined-instance:"+df)
			default:
				if want := resolveRet(ci, m); want != "" {
					probe(fmt.Sprintf("o%d.%s", ci, n), want, fmt.Sprintf("%s#%s resolves to a definition returning %s", c.qual(), n, want), "instance:"+df)
				}
			}
		}
		// class methods
		scands := []string{"s0", "s1", "s2"}
		for _, m := range mods {
			for _, me := range m.Meth {
				scands = append(scands, me.Name)
			}
		}
		for _, n := range scands {
			if !r.Chance(1, 2) {
				continue
			}
			m := findStatic(ci, n, 0)
			if m == nil {
				probe(fmt.Sprintf("%s.%s", c.qual(), n), "", fmt.Sprintf("%s has no class method %s in its ancestry", c.qual(), n), "undefined-class-method:"+df)
			} else {
				probe(fmt.Sprintf("%s.%s", c.qual(), n), m.Ret, fmt.Sprintf("%s.%s resolves to a definition returning %s", c.qual(), n, m.Ret), "class-method:"+df)
			}
		}
		// visibility
		for k := range cls {
			pn := fmt.Sprintf("p%d", k)
			if m := findInst(ci, pn, 0); m != nil && r.Bool() {
				kc.Expects = append(kc.Expects, kExpect{Row: row(), Kind: "error", What: fmt.Sprintf("private method %s called with an explicit receiver", pn), Feat: "private-explicit:" + df})
				emit(fmt.Sprintf("o%d.%s", ci, pn))
			}
			qn := fmt.Sprintf("q%d", k)
			if m := findInst(ci, qn, 0); m != nil && r.Bool() {
				kc.Expects = append(kc.Expects, kExpect{Row: row(), Kind: "error", What: fmt.Sprintf("protected method %s called from outside the hierarchy", qn), Feat: "protected-outside:" + df})
				emit(fmt.Sprintf("o%d.%s", ci, qn))
			}
			vq := fmt.Sprintf("viaq%d", k)
			if m := findInst(ci, vq, 0); m != nil && r.Bool() {
				if want := resolveRet(ci, m); want != "" {
					probe(fmt.Sprintf("o%d.%s(o%d)", ci, vq, ci), want, fmt.Sprintf("%s calls the protected method on another instance of the hierarchy", vq), "protected-inside:"+df)
				}
			}
		}
		// new against initialize
		in := findInit(ci, 0)
		if r.Bool() {
			if in[0] > 0 {
				kc.Expects = append(kc.Expects, kExpect{Row: row(), Kind: "error", What: fmt.Sprintf("%s.new with %d argument(s), initialize requires %d", c.qual(), in[0]-1, in[0]), Feat: "new-too-few:" + df})
				emit(fmt.Sprintf("x%d = %s.new%s", ci, c.qual(), newArgs(in[0]-1)))
			}
		} else if hasInit(ci) && !strings.Contains(initTail(ci, 0), "*rest") {
			kc.Expects = append(kc.Expects, kExpect{Row: row(), Kind: "error", What: fmt.Sprintf("%s.new with %d argument(s), initialize takes at most %d", c.qual(), in[0]+in[1]+1, in[0]+in[1]), Feat: "new-too-many:" + df})
			emit(fmt.Sprintf("y%d = %s.new%s", ci, c.qual(), newArgs(in[0]+in[1]+1)))
		}
	}
	// ----- a class several namespaces deep whose superclass lives in an enclosing
	// (not the innermost, not the outermost) namespace, referenced by short name
	if r.Chance(1, 3) {
		depth := 2 + r.Intn(3) // namespaces around the subclass
		superAt := r.Intn(depth)
		mods := []string{"Zoo", "Mid", "Pets", "Deep"}[:depth]
		c1, c2, c3 := Pick(r, scal), Pick(r, scal), Pick(r, scal)
		ind := ""
		for d, mn := range mods {
			emit(ind + "module " + mn)
			ind += "  "
			if d == superAt {
				emit(ind + "class Animal")
				emit(ind + "  def speak")
				emit(ind + "    " + nLit(c1))
				emit(ind + "  end")
				emit(ind + "  def self.kingdom")
				emit(ind + "    " + nLit(c2))
				emit(ind + "  end")
				emit(ind + "end")
			}
		}
		emit(ind + "class Dog < Animal")
		emit(ind + "  def fetch")
		emit(ind + "    " + nLit(c3))
		emit(ind + "  end")
		emit(ind + "end")
		emit(ind + "class Puppy < Dog")
		emit(ind + "end")
		for d := depth - 1; d >= 0; d-- {
			emit(strings.Repeat("  ", d) + "end")
		}
		q := strings.Join(mods, "::")
		f := fmt.Sprintf("deep-namespace:ns%d-super%d", depth, superAt)
		probe(q+"::Dog.new.speak", c1, "Dog inherits speak from Animal in an enclosing namespace", f)
		probe(q+"::Dog.kingdom", c2, "Dog inherits the class method kingdom", f)
		probe(q+"::Puppy.new.speak", c1, "Puppy inherits speak through Dog", f)
		probe(q+"::Puppy.new.fetch", c3, "Puppy inherits fetch from Dog", f)
		probe(q+"::Puppy.new.meow", "", "nothing in the ancestry defines meow", f)
	}
	// ----- a module of the enclosing namespace included / extended by short name,
	// and implicit calls of its methods from instance and class methods
	if r.Chance(1, 3) {
		ch := Pick(r, scal)
		emit("module Outer")
		emit("  module Helper")
		emit("    def help")
		emit("      " + nLit(ch))
		emit("    end")
		emit("  end")
		emit("  class User")
		emit("    include Helper")
		emit("    def use")
		kc.Expects = append(kc.Expects, kExpect{Row: row(), Kind: "clean", What: "implicit call of an included module's method from an instance method", Feat: "module-implicit:include"})
		emit("      help")
		emit("    end")
		emit("  end")
		emit("  class Tool")
		emit("    extend Helper")
		emit("    def self.build")
		kc.Expects = append(kc.Expects, kExpect{Row: row(), Kind: "clean", What: "implicit call of an extended module's method from a class method", Feat: "module-implicit:extend"})
		emit("      help")
		emit("    end")
		emit("  end")
		emit("end")
		probe("Outer::User.new.help", ch, "User includes Helper of the enclosing namespace", "module-short-name:include")
		probe("Outer::User.new.use", ch, "use returns what help returns", "module-implicit:include")
		probe("Outer::Tool.help", ch, "Tool extends Helper of the enclosing namespace", "module-short-name:extend")
		probe("Outer::Tool.build", ch, "build returns what help returns", "module-implicit:extend")
		probe("Outer::Tool.new.help", "", "an extended module gives no instance methods", "module-short-name:extend")
	}
	// ----- a singleton body with a visibility section of its own, written inside a
	// private (protected) section that goes on after it
	if r.Chance(1, 3) {
		kw := Pick(r, []string{"private", "protected"})
		inner := kw
		if r.Chance(1, 3) {
			inner = Pick(r, []string{"private", "protected"})
		}
		cv := Pick(r, scal)
		emit("class Vault")
		emit("  def open_one")
		emit("    " + nLit(cv))
		emit("  end")
		emit("  " + kw)
		emit("  def hidden_before")
		emit("    1")
		emit("  end")
		emit("  class << self")
		emit("    " + inner)
		emit("    def cls_hidden")
		emit("      1")
		emit("    end")
		emit("  end")
		emit("  def hidden_after")
		emit("    1")
		emit("  end")
		emit("end")
		emit("vault = Vault.new")
		probe("vault.open_one", cv, "a public method before the section", "singleton-section:"+kw+"/"+inner)
		for _, hm := range []string{"hidden_before", "hidden_after"} {
			kc.Expects = append(kc.Expects, kExpect{Row: row(), Kind: "error", What: hm + " is " + kw + " (the section goes on after the class << self block)", Feat: "singleton-section:" + kw + "/" + inner})
			emit("vault." + hm)
		}
	}
	// ----- operator methods: defined like any method, called in operator syntax
	if r.Chance(1, 3) {
		ops := []string{"<", ">", "<=", ">=", "<=>", "<<", ">>", "%", "==", "+", "-", "*", "/", "&", "|", "[]"}
		Shuffle(r, ops)
		ops = ops[:2+r.Intn(4)]
		emit("class Opbox")
		rets := map[string]string{}
		for _, op := range ops {
			rets[op] = Pick(r, scal)
			emit("  def " + op + "(other)")
			emit("    " + nLit(rets[op]))
			emit("  end")
		}
		emit("end")
		emit("opb = Opbox.new")
		for _, op := range ops {
			if op == "[]" {
				probe("opb[1]", rets[op], "Opbox defines [] itself", "operator-method:[]")
				continue
			}
			probe("opb "+op+" 1", rets[op], "Opbox defines "+op+" itself", "operator-method:"+op)
		}
	}
	// ----- a protected method that comes from an included module
	if r.Chance(1, 3) {
		cq := Pick(r, scal)
		emit("module Ranked")
		emit("  protected")
		emit("  def rank")
		emit("    " + nLit(cq))
		emit("  end")
		emit("end")
		emit("class Officer")
		emit("  include Ranked")
		emit("  def same_rank(other)")
		kc.Expects = append(kc.Expects, kExpect{Row: row(), Kind: "clean", What: "protected method of an included module called on another instance inside the including class", Feat: "protected-inside:module"})
		emit("    other.rank")
		emit("  end")
		emit("end")
		emit("class Captain < Officer")
		emit("  def senior(other)")
		kc.Expects = append(kc.Expects, kExpect{Row: row(), Kind: "clean", What: "protected method of a module included by the superclass, called in a subclass", Feat: "protected-inside:module-subclass"})
		emit("    other.rank")
		emit("  end")
		emit("end")
		emit("off = Officer.new")
		emit("cap = Captain.new")
		probe("off.same_rank(off)", cq, "same_rank returns what the protected rank returns", "protected-inside:module")
		probe("cap.senior(cap)", cq, "senior returns what the protected rank returns", "protected-inside:module-subclass")
		kc.Expects = append(kc.Expects, kExpect{Row: row(), Kind: "error", What: "protected method rank called from outside the hierarchy", Feat: "protected-outside:module"})
		emit("off.rank")
	}
	kc.Source = strings.Join(lines, "\n") + "\n"
	return kc
}

func judgeHierarchy(c *CheckCtx, rn Runner, kc *kCase) *Violation {
	out, ok := relRun(c, rn, &Exec{Files: map[string]string{targetFile: kc.Source}, Argv: []string{targetFile}})
	if !ok {
		c.Event("skipped_crash_or_hang", 1)
		return nil
	}
	c.Nontrivial(kc.Source)
	types := map[int][]string{}
	diags := map[int][]string{}
	for _, r := range parseOut(out) {
		if r.Row <= 0 || r.Hint {
			continue
		}
		if _, isType := parseTiType(r.Msg); isType && !strings.Contains(r.Msg, " ") || strings.HasPrefix(r.Msg, "Union<") || strings.HasPrefix(r.Msg, "Array<") {
			types[r.Row] = append(types[r.Row], r.Msg)
		} else {
			diags[r.Row] = append(diags[r.Row], r.Msg)
		}
	}
	mk := func(sig, what string) *Violation {
		return &Violation{Sig: sig, Kind: "user-classes", Case: mustJSON(kc), What: what, Observed: clip(out, 3000)}
	}
	expected := map[int]bool{}
	for _, e := range kc.Expects {
		expected[e.Row] = true
		c.Event("probes_"+strings.SplitN(e.Feat, ":", 2)[0], 1)
		switch e.Kind {
		case "type":
			if len(diags[e.Row]) > 0 {
				return mk("false-alarm:"+e.Feat+":"+msgTemplate(diags[e.Row][0]), fmt.Sprintf("row %d: %s, but ti reports: %s", e.Row, e.What, diags[e.Row][0]))
			}
			if len(types[e.Row]) != 1 || types[e.Row][0] != e.Want {
				return mk("wrong-resolution:"+e.Feat, fmt.Sprintf("row %d: %s, ti prints %v", e.Row, e.What, types[e.Row]))
			}
		case "error":
			if len(diags[e.Row]) == 0 {
				return mk("missed:"+e.Feat, fmt.Sprintf("row %d: %s, but ti reports nothing (prints %v)", e.Row, e.What, types[e.Row]))
			}
		case "clean":
			if len(diags[e.Row]) > 0 {
				return mk("false-alarm:"+e.Feat+":"+msgTemplate(diags[e.Row][0]), fmt.Sprintf("row %d: %s, but ti reports: %s", e.Row, e.What, diags[e.Row][0]))
			}
		}
	}
	// no diagnostic anywhere else (definitions, instances)
	var rows []int
	for row := range diags {
		rows = append(rows, row)
	}
	sort.Ints(rows)
	for _, row := range rows {
		if !expected[row] {
			return mk("diagnostic-on-definition-row:"+msgTemplate(diags[row][0]), fmt.Sprintf("row %d belongs to the class definitions, ti reports: %s", row, diags[row][0]))
		}
	}
	return nil
}

func init() {
	register(&Check{ID: "C16", Title: "user classes: resolution, inheritance and visibility follow Ruby",
		Replay: func(c *CheckCtx, s *Slot, v *Violation) *Violation {
			var kc kCase
			if json.Unmarshal(v.Case, &kc) != nil {
				return nil
			}
			return judgeHierarchy(c, s.BlackBox(), &kc)
		},
		Run: func(c *CheckCtx) {
			c.rule = "generated hierarchies of 1-4 classes (superclass chains of depth 0-3, optionally inside a namespace module and referenced by qualified name) and 0-2 modules that are included or extended; every method returns a literal of a known class; own/inherited/overridden/reopened instance methods, `def self.` and `class << self` class methods, extended modules, initialize with required and optional parameters (one in four written inside a private section or as `private def initialize`; one in three followed by *rest, **opts and/or &blk), private and protected methods (by section keyword followed by `public`, by `private def m`, or by `private :m` after the definition) followed by public methods, reopenings that add and redefine methods; operator methods (<, <=>, <<, %, ==, +, [] ...) defined by a class and called in operator syntax; class names drawn from names the shipped configuration declares in other frames (Base, Relation, Table, Error) and fresh names. Probes: dbtp of calls by name on an instance and on the class (expected: the class of the nearest definition in Ruby's lookup order, or an undefined-method diagnostic), explicit-receiver calls of private methods and top-level calls of protected methods (diagnostic), private via implicit receiver and protected via another instance inside the hierarchy (no diagnostic, right type), new with accepted / too few / too many arguments; no diagnostic on any definition row. distinct_nontrivial = distinct programs"
			c.assumptions = []string{"module method names are unique per module and differ from class method names, so Ruby's module-vs-superclass order never decides a probe", "private/protected method names are unique per class"}
			r := c.RNG.Sub(16)
			n := c.N(300, 8000)
			jobs := make([]*kCase, n)
			for i := range jobs {
				jobs[i] = genHierarchy(r)
			}
			c.Eng.Map(n, func(s *Slot, i int) {
				kc := jobs[i]
				if i%53 == 0 {
					c.Sample(map[string]any{"program": clip(kc.Source, 1500)})
				}
				if v := exploreThenJudge(c, s, func(rn Runner) *Violation { return judgeHierarchy(c, rn, kc) }); v != nil {
					c.Report(v)
				}
			})
		}})
}
