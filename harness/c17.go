package main

import (
	"encoding/json"
	"fmt"
	"sort"
	"strings"
)

// ---------------------------------------------------------------------------
// C17: block parameters get declared types and block locals stay local.
//
// Generated block calls (do/end and braces) on array, hash, range, integer
// and string receivers and on instances of generated configured classes, with
// 0-3 block parameters (fewer and more than declared), parameters that shadow
// an outer variable, blocks nested in blocks (same and different parameter
// names) and variables first assigned inside a block. Every parameter is
// probed inside the block; shadowed variables are probed after the block (the
// previous type), block locals are probed after the block (not the inner
// type).

type bExpect struct {
	Row  int      `json:"row"`
	Kind string   `json:"kind"` // type | hidden | clean
	Want []string `json:"want,omitempty"`
	What string   `json:"what"`
	Feat string   `json:"feat"`
}

type bCase struct {
	Cfg     CfgSpec   `json:"cfg"`
	Source  string    `json:"source"`
	Expects []bExpect `json:"expects"`
	Erring  int       `json:"erring,omitempty"`
}

type bRecv struct {
	text   string     // receiver expression
	method string     // method with arguments
	params [][]string // declared block parameter types resolved against the receiver (nil entry = not judged)
	feat   string
}

func genBlockRecv(r *RNG, classes []*GClass) bRecv {
	scal := []string{"Integer", "String", "Float", "Symbol"}
	elems := func() (string, []string) {
		n := 1 + r.Intn(3)
		var lits, cls []string
		for i := 0; i < n; i++ {
			c := Pick(r, scal)
			lits = append(lits, nLit(c))
			cls = append(cls, c)
		}
		return "[" + strings.Join(lits, ", ") + "]", dedup(sortedCopy(cls))
	}
	for {
		switch r.Intn(10) {
		case 9:
			// a receiver without elements: the parameter's type is not judged, the
			// surplus parameters are nil and shadowing works as ever
			return bRecv{Pick(r, []string{"[]", "[[]]", "[[], []]"}), "each", [][]string{nil}, "array-empty:each"}
		case 0, 1:
			lit, e := elems()
			m := Pick(r, []string{"each", "each_with_index", "each_index", "reject", "delete_if", "all?", "count", "sort", "max", "min"})
			var ps [][]string
			switch m {
			case "each", "reject", "delete_if", "all?", "count":
				ps = [][]string{e}
			case "each_with_index":
				ps = [][]string{e, {"Integer"}}
			case "each_index":
				ps = [][]string{{"Integer"}}
			default:
				ps = [][]string{e, e}
			}
			return bRecv{lit, m, ps, "array:" + m}
		case 2:
			k := 1 + r.Intn(3)
			var parts, cls []string
			for i := 0; i < k; i++ {
				c := Pick(r, scal)
				parts = append(parts, fmt.Sprintf("%c: %s", 'a'+i, nLit(c)))
				cls = append(cls, c)
			}
			return bRecv{"{" + strings.Join(parts, ", ") + "}", "each", [][]string{nil, dedup(sortedCopy(cls))}, "hash:each"}
		case 3:
			if r.Bool() {
				return bRecv{"3", "times", [][]string{{"Integer"}}, "integer:times"}
			}
			return bRecv{"5", "downto(1)", [][]string{{"Integer"}}, "integer:downto"}
		case 4:
			m := Pick(r, []string{"each_char", "each_byte", "each_line"})
			t := "String"
			if m == "each_byte" {
				t = "Integer"
			}
			return bRecv{"\"abc\"", m, [][]string{{t}}, "string:" + m}
		case 5:
			return bRecv{"(1..4)", "each", [][]string{{"Integer"}}, "range:each"}
		case 6:
			// calls WITH arguments whose block parameters depend on the receiver
			if r.Bool() {
				lit, e := elems()
				m := Pick(r, []string{"max(1)", "min(1)", "count(1)"})
				ps := [][]string{e, e}
				if m == "count(1)" {
					ps = [][]string{e}
				}
				return bRecv{lit, m, ps, "array-with-argument:" + strings.SplitN(m, "(", 2)[0]}
			}
			c1, c2 := Pick(r, scal), Pick(r, scal)
			return bRecv{"{a: " + nLit(c1) + "}", "merge({b: " + nLit(c2) + "})", [][]string{{"Symbol"}, {c1}, {c2}}, "hash:merge"}
		default:
			// a generated configured class with declared scalar block parameters
			var cands []struct {
				c *GClass
				m *GMethod
			}
			for _, c := range classes {
				for _, m := range c.Methods {
					if len(m.BlockParams) > 0 && !m.Static {
						ok := true
						// only methods declared once: with overloads the first admitting
						// declaration decides, which is C07-C09's subject
						for _, o := range c.Methods {
							if o != m && o.Name == m.Name {
								ok = false
							}
						}
						for _, p := range m.Params {
							if p.Key != "" && !p.Default {
								ok = false
							}
						}
						if ok {
							cands = append(cands, struct {
								c *GClass
								m *GMethod
							}{c, m})
						}
					}
				}
			}
			if len(cands) == 0 {
				continue
			}
			cm := Pick(r, cands)
			var args []string
			for _, p := range cm.m.Params {
				if p.Key != "" || p.Default || p.Rest {
					continue
				}
				args = append(args, litForName(p.Types[0]))
			}
			call := cm.m.Name
			if len(args) > 0 {
				call += "(" + strings.Join(args, ", ") + ")"
			}
			var ps [][]string
			for _, bp := range cm.m.BlockParams {
				ps = append(ps, []string{classOfName(bp)})
			}
			return bRecv{cm.c.Name + ".new", call, ps, "configured-class"}
		}
	}
}

func genBlocks(r *RNG, classes []*GClass) *bCase {
	bc := &bCase{}
	var lines []string
	emit := func(s string) { lines = append(lines, s) }
	row := func() int { return len(lines) + 1 }
	scal := []string{"Integer", "String", "Float", "Symbol"}
	indent := ""
	inDef := r.Chance(1, 4)
	if inDef {
		emit("def blocks_here")
		indent = "  "
	}
	// outer variables that block parameters may shadow
	outer := map[string][]string{}
	for _, n := range []string{"x", "y"} {
		if r.Bool() {
			c := Pick(r, scal)
			emit(indent + n + " = " + nLit(c))
			outer[n] = []string{c}
		}
	}
	nloc := 0
	var block func(ind string, env map[string][]string, depth int)
	block = func(ind string, env map[string][]string, depth int) {
		rc := genBlockRecv(r, classes)
		np := r.Intn(len(rc.params) + 2)
		if np > 3 {
			np = 3
		}
		pool := []string{"x", "y", "e", "f", "g"}
		Shuffle(r, pool)
		names := pool[:np]
		inner := map[string][]string{}
		for k, v := range env {
			inner[k] = v
		}
		head := ind + rc.text + "." + rc.method
		brace := r.Bool()
		open, close := " do", "end"
		if brace {
			open, close = " {", "}"
		}
		if np > 0 {
			open += " |" + strings.Join(names, ", ") + "|"
		}
		emit(head + open)
		for i, n := range names {
			switch {
			case i >= len(rc.params):
				inner[n] = []string{"NilClass"}
				bc.Expects = append(bc.Expects, bExpect{Row: row(), Kind: "type", Want: inner[n], What: fmt.Sprintf("surplus block parameter %s of %s", n, rc.method), Feat: "surplus:" + rc.feat})
			case rc.params[i] == nil:
				inner[n] = nil
				delete(inner, n)
				emit(ind + "  dbtp " + n)
				continue
			default:
				inner[n] = rc.params[i]
				f := "declared:" + rc.feat
				if _, shadows := env[n]; shadows {
					f = "shadowing:" + rc.feat
				}
				bc.Expects = append(bc.Expects, bExpect{Row: row(), Kind: "type", Want: inner[n], What: fmt.Sprintf("block parameter %s (position %d) of %s on %s", n, i, rc.method, rc.text), Feat: f})
			}
			emit(ind + "  dbtp " + n)
		}
		// outer variables that are not shadowed keep their type inside
		envNames := make([]string, 0, len(env))
		for n := range env {
			envNames = append(envNames, n)
		}
		sort.Strings(envNames)
		for _, n := range envNames {
			t := env[n]
			if _, isParam := inner[n]; isParam && !contains(names, n) && r.Bool() {
				bc.Expects = append(bc.Expects, bExpect{Row: row(), Kind: "type", Want: t, What: "outer variable " + n + " inside the block", Feat: "outer-inside"})
				emit(ind + "  dbtp " + n)
			}
		}
		var locals []string
		if r.Bool() {
			nloc++
			ln := fmt.Sprintf("loc%d", nloc)
			c := Pick(r, scal)
			emit(ind + "  " + ln + " = " + nLit(c))
			bc.Expects = append(bc.Expects, bExpect{Row: row(), Kind: "type", Want: []string{c}, What: "block local " + ln + " inside the block", Feat: "local-inside"})
			emit(ind + "  dbtp " + ln)
			inner[ln] = []string{c}
			locals = append(locals, ln)
		}
		if depth > 0 && r.Chance(1, 2) {
			block(ind+"  ", inner, depth-1)
			// after the inner block the parameters of this block are back
			for _, n := range names {
				if t, ok := inner[n]; ok && t != nil {
					bc.Expects = append(bc.Expects, bExpect{Row: row(), Kind: "type", Want: t, What: "block parameter " + n + " after a nested block", Feat: "after-nested"})
					emit(ind + "  dbtp " + n)
				}
			}
		}
		// a body whose last statement is reported (undefined method, type
		// mismatch) still closes its scope. Only in an outermost block outside a
		// method: a diagnostic abandons the enclosing bodies, so nothing inside
		// them is judged after it
		if !inDef && ind == "" && r.Chance(1, 3) {
			var cands []string
			for _, n := range names {
				if t, ok := inner[n]; ok && len(t) == 1 && contains(scal, t[0]) {
					cands = append(cands, n)
				}
			}
			cands = append(cands, locals...)
			if len(cands) > 0 && r.Chance(2, 3) {
				emit(ind + "  " + Pick(r, cands) + ".zz_nomethod")
			} else {
				emit(ind + "  1 + \"a\"")
			}
			bc.Erring++
		}
		emit(ind + close)
		// after the block: shadowed outer variables have their previous type
		for _, n := range names {
			if t, ok := env[n]; ok {
				bc.Expects = append(bc.Expects, bExpect{Row: row(), Kind: "type", Want: t, What: "variable " + n + " after a block whose parameter shadowed it", Feat: "restored-after-block"})
				emit(ind + "dbtp " + n)
			}
		}
		for _, ln := range locals {
			bc.Expects = append(bc.Expects, bExpect{Row: row(), Kind: "hidden", Want: inner[ln], What: "variable " + ln + " first assigned inside the block, probed after it", Feat: "local-after-block"})
			emit(ind + "dbtp " + ln)
		}
	}
	nb := 1 + r.Intn(3)
	for i := 0; i < nb; i++ {
		block(indent, outer, 2)
	}
	if inDef {
		emit("  1")
		emit("end")
		emit("blocks_here")
	}
	bc.Source = strings.Join(lines, "\n") + "\n"
	return bc
}

func judgeBlocks(c *CheckCtx, rn Runner, bc *bCase) *Violation {
	cfg := bc.Cfg.build()
	if len(bc.Cfg.Extra) == 0 {
		cfg = nil
	}
	out, ok := relRun(c, rn, &Exec{Files: map[string]string{targetFile: bc.Source}, Argv: []string{targetFile}, Config: cfg})
	if !ok {
		c.Event("skipped_crash_or_hang", 1)
		return nil
	}
	c.Nontrivial(bc.Source)
	c.Event("blocks_ending_in_a_reported_statement", int64(bc.Erring))
	byRow := map[int][]Rec{}
	for _, r := range parseOut(out) {
		if r.Row > 0 && !r.Hint {
			byRow[r.Row] = append(byRow[r.Row], r)
		}
	}
	mk := func(sig, what string) *Violation {
		return &Violation{Sig: sig, Kind: "blocks", Case: mustJSON(bc), What: what, Observed: clip(out, 3000)}
	}
	for _, e := range bc.Expects {
		c.Event("probes_"+strings.SplitN(e.Feat, ":", 2)[0], 1)
		recs := byRow[e.Row]
		// a probe inside a block may be evaluated once per element class: every
		// printed type must be within the expectation, and together they cover it
		switch e.Kind {
		case "type":
			if len(recs) == 0 {
				return mk("probe-output:"+e.Feat, fmt.Sprintf("row %d (%s): no type line", e.Row, e.What))
			}
			want := mt(e.Want...)
			var seen []string
			for _, rec := range recs {
				got, okp := parseTiType(rec.Msg)
				if !okp {
					return mk("diagnostic-on-probe:"+e.Feat+":"+msgTemplate(rec.Msg), fmt.Sprintf("row %d (%s): %s", e.Row, e.What, rec.Msg))
				}
				seen = append(seen, got.Atoms...)
			}
			got := mt(seen...)
			if !got.equal(want) {
				return mk("wrong-type:"+e.Feat+":"+want.String()+"=>"+got.String(), fmt.Sprintf("row %d (%s): ti reports %s, declared %s", e.Row, e.What, got.String(), want.String()))
			}
		case "hidden":
			for _, rec := range recs {
				if got, okp := parseTiType(rec.Msg); okp && got.equal(mt(e.Want...)) {
					return mk("block-local-visible-after-block", fmt.Sprintf("row %d (%s): ti still reports %s", e.Row, e.What, rec.Msg))
				}
			}
		}
	}
	return nil
}

func init() {
	register(&Check{ID: "C17", Title: "block parameters get declared types and block locals stay local",
		Replay: func(c *CheckCtx, s *Slot, v *Violation) *Violation {
			var bc bCase
			if json.Unmarshal(v.Case, &bc) != nil {
				return nil
			}
			return judgeBlocks(c, s.BlackBox(), &bc)
		},
		Run: func(c *CheckCtx) {
			c.rule = "generated block calls in do/end and brace form on array literals (also empty ones and arrays of empty arrays; each, each_with_index, each_index, reject, delete_if, all?, count, sort, max, min), hash literals (each), integers (times, downto), strings (each_char, each_byte, each_line), ranges (each) and instances of generated configured classes with declared scalar block_parameters; 0-3 block parameters (fewer and more than declared), names that shadow outer variables, blocks nested up to depth 3, a variable first assigned inside the block; at top level or inside a called method. Oracle: each parameter probe prints the declared type resolved against the receiver (element union for Unify/Flatten, Integer for Int, ...), surplus parameters NilClass, a shadowed variable its previous type after the block and the enclosing block's parameter after a nested block, a block local not its inner type after the block. distinct_nontrivial = distinct programs"
			c.assumptions = []string{"Hash#each's key parameter (declared Untyped) is not judged", "a probe evaluated several times must print types within the expectation that together cover it"}
			r := c.RNG.Sub(17)
			var jobs []*bCase
			for k := 0; k < c.N(200, 6000); k++ {
				jobs = append(jobs, genBlocks(r, nil))
			}
			for g := 0; g < c.N(5, 60); g++ {
				var classes []*GClass
				for tries := 0; tries < 20; tries++ {
					classes = genClasses(r, 2+r.Intn(3), "")
					has := false
					for _, cl := range classes {
						for _, m := range cl.Methods {
							if len(m.BlockParams) > 0 {
								has = true
							}
						}
					}
					if has {
						break
					}
				}
				extra := map[string]string{}
				for _, cl := range classes {
					extra["zz_"+strings.ToLower(cl.Name)+".json"] = cl.toJSON(Notation{}, r, nil)
				}
				for k := 0; k < c.N(20, 60); k++ {
					bc := genBlocks(r, classes)
					bc.Cfg = CfgSpec{Extra: extra}
					jobs = append(jobs, bc)
				}
			}
			const chunk = 20
			nchunks := (len(jobs) + chunk - 1) / chunk
			c.Eng.Map(nchunks, func(s *Slot, ci int) {
				for i := ci * chunk; i < (ci+1)*chunk && i < len(jobs); i++ {
					bc := jobs[i]
					if i%61 == 0 {
						c.Sample(map[string]any{"program": clip(bc.Source, 1200)})
					}
					if v := exploreThenJudge(c, s, func(rn Runner) *Violation { return judgeBlocks(c, rn, bc) }); v != nil {
						c.Report(v)
					}
				}
			})
		}})
}
