package main

import (
	"encoding/json"
	"fmt"
	"os"
	"os/signal"
	"path/filepath"
	"sort"
	"strings"
	"syscall"
)

func usage() {
	fmt.Fprintln(os.Stderr, "usage: verif check <Cxx> [--tier quick|thorough] | replay <dir> | golden | list")
	os.Exit(2)
}

func main() {
	if len(os.Args) < 2 {
		usage()
	}
	code := 2
	func() {
		initScratch()
		defer cleanupScratch()
		sig := make(chan os.Signal, 1)
		signal.Notify(sig, syscall.SIGINT, syscall.SIGTERM)
		go func() {
			<-sig
			cleanupScratch()
			os.Exit(130)
		}()
		defer func() {
			if r := recover(); r != nil {
				if inc, ok := r.(inconclusive); ok {
					fmt.Printf("INCONCLUSIVE %s\n", oneLine(inc.msg, 2000))
					code = 2
					return
				}
				cleanupScratch()
				panic(r)
			}
		}()
		code = dispatch()
	}()
	os.Exit(code)
}

func dispatch() int {
	switch os.Args[1] {
	case "list":
		ids := []string{}
		for id := range checks {
			ids = append(ids, id)
		}
		sort.Strings(ids)
		for _, id := range ids {
			fmt.Println(id, checks[id].Title)
		}
		return 0

	case "gen":
		return genCmd()

	case "golden":
		b := buildAll(false)
		eng := NewEngine(b)
		defer eng.Close()
		pass, fail, failures := golden(eng)
		for _, f := range failures {
			fmt.Println("FAIL", f)
		}
		fmt.Printf("golden: %d pass, %d fail\n", pass, fail)
		if fail > 0 {
			return 1
		}
		return 0

	case "check":
		if len(os.Args) < 3 {
			usage()
		}
		id := os.Args[2]
		tier := envOr("VERIF_TIER", "quick")
		for i := 3; i < len(os.Args); i++ {
			if os.Args[i] == "--tier" && i+1 < len(os.Args) {
				tier = os.Args[i+1]
			}
			if strings.HasPrefix(os.Args[i], "--tier=") {
				tier = strings.TrimPrefix(os.Args[i], "--tier=")
			}
		}
		if tier != "quick" && tier != "thorough" {
			usage()
		}
		ch, ok := checks[id]
		if !ok {
			fmt.Fprintln(os.Stderr, "unknown check", id)
			return 2
		}
		b := buildAll(ch.NeedTools)
		eng := NewEngine(b)
		defer eng.Close()
		c := newCtx(id, tier, eng)
		c.replayKnown(ch)
		ch.Run(c)
		return c.finish()

	case "replay":
		if len(os.Args) < 3 {
			usage()
		}
		path := os.Args[2]
		data, err := os.ReadFile(filepath.Join(path, "violation.json"))
		if err != nil {
			data, err = os.ReadFile(path)
		}
		if err != nil {
			fmt.Fprintln(os.Stderr, "cannot read", path)
			return 2
		}
		var v Violation
		if err := json.Unmarshal(data, &v); err != nil {
			fmt.Fprintln(os.Stderr, "bad violation file:", err)
			return 2
		}
		ch, ok := checks[v.Property]
		if !ok || ch.Replay == nil {
			fmt.Fprintln(os.Stderr, "no replay for", v.Property)
			return 2
		}
		b := buildAll(ch.NeedTools)
		eng := NewEngine(b)
		defer eng.Close()
		c := newCtx(v.Property, "quick", eng)
		nv := ch.Replay(c, eng.MainSlot(), &v)
		if nv == nil {
			fmt.Printf("REPLAY property=%s sig=%q: no longer violates on the current tree\n", v.Property, v.Sig)
			return 0
		}
		fmt.Printf("REPLAY property=%s sig=%q: still violates: %s\n", v.Property, nv.Sig, oneLine(nv.What, 600))
		if nv.Expected != "" || nv.Observed != "" {
			fmt.Printf("--- expected\n%s\n--- observed\n%s\n", nv.Expected, nv.Observed)
		}
		return 1
	}
	usage()
	return 2
}
