package main

import (
	"fmt"
	"os"
)

// `verif gen <seed> [n]` prints generated programs (debugging aid).
func genCmd() int {
	seed := uint64(1)
	n := 1
	if len(os.Args) > 2 {
		fmt.Sscanf(os.Args[2], "%d", &seed)
	}
	if len(os.Args) > 3 {
		fmt.Sscanf(os.Args[3], "%d", &n)
	}
	for i := 0; i < n; i++ {
		r := NewRNG(seed + uint64(i))
		p := genProgram(r, GenOpts{Classes: true, MultiLine: true, Stmts: 8 + r.Intn(10)})
		fmt.Print(p.Render(nil).Text())
		fmt.Println("# ----")
	}
	return 0
}
