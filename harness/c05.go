package main

import (
	"encoding/json"
	"fmt"
	"regexp"
	"sort"
	"strings"
)

// ---------------------------------------------------------------------------
// C05: same input, same output

type detCase struct {
	Exec *Exec  `json:"exec"`
	Mode string `json:"mode"`
}

var defNameRe = regexp.MustCompile(`(?m)^\s*def\s+(?:self\.)?([a-z_][A-Za-z0-9_]*[?!=]?)`)
var classNameRe = regexp.MustCompile(`(?m)^\s*(?:class|module)\s+([A-Z][A-Za-z0-9_]*)`)

// detModes builds the 13 argv shapes for a program.
func detModes(r *RNG, src string) [][]string {
	lines := strings.Count(src, "\n") + 1
	row := func() string { return fmt.Sprintf("--row=%d", 1+r.Intn(lines)) }
	method, class := "foo", "Object"
	if m := defNameRe.FindAllStringSubmatch(src, -1); len(m) > 0 {
		method = Pick(r, m)[1]
	}
	if m := classNameRe.FindAllStringSubmatch(src, -1); len(m) > 0 {
		class = Pick(r, m)[1]
	} else if r.Bool() {
		class = Pick(r, []string{"Integer", "String", "Array", "Hash", "Object"})
	}
	return [][]string{
		{}, {"-i"}, {"--hover", row()}, {"--suggest", row()}, {"--llm-nav"}, {"--llm-nav", "--all"},
		{"--llm-nav", "--target=" + method}, {"--llm-define"}, {"--llm-define", "--class=" + class}, {"--llm-class"},
		{"--extends", "--class=" + class}, {"--define", row()}, {"--llm-error"},
	}
}

func detModeName(argv []string) string {
	var parts []string
	for _, a := range argv {
		if i := strings.Index(a, "="); i > 0 {
			a = a[:i]
		}
		parts = append(parts, a)
	}
	if len(parts) == 0 {
		return "plain"
	}
	return strings.Join(parts, " ")
}

// canon is the comparison form of an output in a mode: byte-exact, except
// --define whose records are an unordered set.
func canon(mode string, out string) string {
	if strings.HasPrefix(mode, "--define") {
		lines := strings.Split(out, "\n")
		sort.Strings(lines)
		return strings.Join(lines, "\n")
	}
	return out
}

func firstDiffKind(a, b string) string {
	al, bl := strings.Split(a, "\n"), strings.Split(b, "\n")
	for i := 0; i < len(al) || i < len(bl); i++ {
		var x, y string
		if i < len(al) {
			x = al[i]
		}
		if i < len(bl) {
			y = bl[i]
		}
		if x != y {
			if x == "" {
				x = y
			}
			shape := wordRe.ReplaceAllString(x, "w")
			if len(shape) > 40 {
				shape = shape[:40]
			}
			return shape
		}
	}
	return "?"
}

var bbSchedules = [][]string{
	{"GOMAXPROCS=1", "GOGC=1"}, {"GOMAXPROCS=4", "GOGC=100"}, {"GOMAXPROCS=16", "GOGC=off"},
	{"GOMAXPROCS=2", "GOGC=10"}, {"GOMAXPROCS=8", "GOGC=50"}, {"GOMAXPROCS=16", "GOGC=1"},
}

// judgeDet: repeated runs must agree. ipRuns in-process repetitions first;
// any difference is confirmed on the plain binary under varied schedules.
func judgeDet(c *CheckCtx, s *Slot, dc *detCase, ipRuns, bbRuns int) *Violation {
	e := dc.Exec
	mode := detModeName(e.Argv[1:])
	differs := false
	var outs []string
	for i := 0; i < ipRuns; i++ {
		r := s.InProc().Run(e)
		c.Eval(1)
		if !r.Normal() {
			c.Event("skipped_crash_or_hang", 1)
			return nil
		}
		outs = append(outs, canon(mode, r.Stdout))
	}
	for _, o := range outs[1:] {
		if o != outs[0] {
			differs = true
		}
	}
	if len(outs) > 0 && outs[0] != "" {
		c.Nontrivial(mode + "\x00" + e.Files[targetFile])
		c.Event("repeated_nonempty_outputs_compared", 1)
	}
	n := bbRuns
	if differs {
		c.Event("inprocess_difference", 1)
		n = 6
	}
	var bbOuts []string
	for i := 0; i < n; i++ {
		ex := *e
		ex.Env = bbSchedules[i%len(bbSchedules)]
		r := s.BlackBox().Run(&ex)
		c.Eval(1)
		if r.Timeout() || r.Watchdog || r.Crashed() {
			c.Event("skipped_crash_or_hang", 1)
			return nil
		}
		bbOuts = append(bbOuts, canon(mode, r.Stdout))
	}
	if len(bbOuts) > 0 {
		c.Event("blackbox_schedules_compared", int64(len(bbOuts)))
		if len(outs) > 0 && bbOuts[0] != outs[0] && !differs {
			// fidelity monitor: driver and binary disagree although both are stable
			allSame := true
			for _, o := range bbOuts[1:] {
				if o != bbOuts[0] {
					allSame = false
				}
			}
			if allSame {
				c.Event("fidelity_diverged", 1)
				c.Extra("fidelity_example", map[string]any{"argv": e.Argv, "driver": clip(outs[0], 500), "binary": clip(bbOuts[0], 500), "source": clip(e.Files[targetFile], 600)})
			}
		} else if len(outs) > 0 {
			c.Event("fidelity_agreed", 1)
		}
	}
	for i, o := range bbOuts {
		if i > 0 && o != bbOuts[0] {
			return &Violation{Sig: "nondet:" + mode + ":" + firstDiffKind(bbOuts[0], o), Kind: "det", Case: mustJSON(&detCase{Exec: e.forReplay(), Mode: mode}),
				What:     fmt.Sprintf("two runs of `ti %s` on the same file print different output", strings.Join(e.Argv, " ")),
				Expected: clip(bbOuts[0], 3000), Observed: clip(o, 3000)}
		}
	}
	if differs {
		c.Event("driver_divergence", 1)
	}
	return nil
}

// tieProgram builds a program with deliberate ties: the same method name in
// several classes/frames, static and instance methods of one name.
func tieProgram(r *RNG) string {
	if r.Chance(1, 3) {
		return tieProgramNamespaces(r)
	}
	names := []string{"run", "call", "size", "name", "build", "to_s"}
	classes := []string{"Alpha", "Beta", "Gamma", "Delta"}
	// names that collide under plausible normalisations (case folding, dropped
	// punctuation): with configured classes and with each other
	switch r.Intn(4) {
	case 0:
		classes = []string{"Gpio", "Dir", "ALpha", "Alpha"}
	case 1:
		classes = []string{"AlphaBeta", "Alphabeta", "AlphaBETA", "Alpha_beta"}
	case 2:
		classes = []string{"Js", "Math", "MATh", "Proc"}
		names = []string{"run", "run?", "run!", "size", "sIze", "to_s"}
	}
	var sb strings.Builder
	Shuffle(r, classes)
	nm := Pick(r, names)
	nm2 := Pick(r, names)
	for i, cl := range classes[:2+r.Intn(3)] {
		if r.Bool() {
			fmt.Fprintf(&sb, "module Ns%d\n", i)
		}
		fmt.Fprintf(&sb, "class %s\n", cl)
		fmt.Fprintf(&sb, "  def %s(a)\n    a\n  end\n", nm)
		fmt.Fprintf(&sb, "  def self.%s(a, b = 1)\n    b\n  end\n", nm)
		if r.Bool() {
			fmt.Fprintf(&sb, "  def %s\n    %s(1)\n  end\n", nm2, nm)
		}
		if r.Bool() {
			fmt.Fprintf(&sb, "  private\n  def %s_p\n    nil\n  end\n", nm)
		}
		sb.WriteString("end\n")
		if strings.Contains(sb.String(), fmt.Sprintf("module Ns%d\n", i)) {
			sb.WriteString("end\n")
		}
	}
	fmt.Fprintf(&sb, "def %s(x)\n  x\nend\n", nm)
	for _, cl := range classes[:2] {
		fmt.Fprintf(&sb, "%s.new.%s(1)\n%s.%s(1)\n", cl, nm, cl, nm)
	}
	fmt.Fprintf(&sb, "%s(2)\n%s(\"s\")\nx = [1, \"a\"]\nx.\n", nm, nm)
	return sb.String()
}

// tieProgramNamespaces: one short class name in several namespaces whose names
// have the same length, each with another superclass and mixin (an unqualified
// query has to pick one of them), and a receiver that is a union of classes
// which each define the called method themselves (one call, several owners).
func tieProgramNamespaces(r *RNG) string {
	var sb strings.Builder
	short := Pick(r, []string{"Widget", "Item", "Node"})
	nss := []string{"Gui", "Web", "Cli", "Api"}
	Shuffle(r, nss)
	k := 2 + r.Intn(3)
	for i := 0; i < k; i++ {
		fmt.Fprintf(&sb, "class Super%d\n  def from_super%d\n    %d\n  end\nend\nmodule Mix%d\n  def from_mix%d\n    %d\n  end\nend\n", i, i, i, i, i, i)
	}
	for i := 0; i < k; i++ {
		fmt.Fprintf(&sb, "module %s\n  class %s < Super%d\n    include Mix%d\n    def speak\n      %s\n    end\n    def self.make\n      new\n    end\n  end\nend\n", nss[i], short, i, i, Pick(r, []string{"1", "\"s\"", ":k", "2.5"}))
	}
	owners := []string{"Cat", "Dog", "Cow", "Owl"}[:2+r.Intn(3)]
	for i, o := range owners {
		fmt.Fprintf(&sb, "class %s\n  def speak\n    %s\n  end\nend\n", o, []string{"1", "\"s\"", ":k", "2.5"}[i])
	}
	var news []string
	for _, o := range owners {
		news = append(news, o+".new")
	}
	fmt.Fprintf(&sb, "def pick(n)\n  [%s][n]\nend\ndef chorus(n)\n  animal = pick(n)\n  animal.speak\nend\ndbtp chorus(0)\n", strings.Join(news, ", "))
	fmt.Fprintf(&sb, "w = %s::%s.make\ndbtp w.speak\nw.\n", nss[0], short)
	return sb.String()
}

func init() {
	register(&Check{ID: "C05", Title: "same input, same output",
		Replay: func(c *CheckCtx, s *Slot, v *Violation) *Violation {
			var dc detCase
			if json.Unmarshal(v.Case, &dc) != nil || dc.Exec == nil {
				return nil
			}
			dc.Exec.afterLoad()
			return judgeDet(c, s, &dc, 2, 6)
		},
		Run: func(c *CheckCtx) {
			c.rule = "cases = (corpus program | generated program with deliberate name ties: one method name in several classes and frames, class names that collide under case folding, one short class name in several namespaces of equal name length with different ancestors, a receiver that is a union of classes each defining the called method) x 13 argv shapes (plain, -i, --hover, --suggest, --llm-nav, --llm-nav --all, --llm-nav --target=, --llm-define, --llm-define --class=, --llm-class, --extends --class=, --define, --llm-error); each executed 4x in one in-process worker (every run re-randomises Go map iteration) and, for a fixed share, 3x by the plain binary in separate processes under GOMAXPROCS in {1,4,16} x GOGC in {1,100,off}; outputs compared byte for byte (--define as a sorted multiset of lines). distinct_nontrivial = distinct (mode, source) pairs with non-empty output. Thorough also runs the corpus through the race-detector build."
			c.assumptions = []string{"a difference seen only in-process is reported only if separate processes of the plain binary differ too (6 runs)"}
			items := Corpus()
			type job struct {
				src  string
				argv []string
			}
			var jobs []job
			r := c.RNG.Sub(5)
			nProg := c.N(70, len(items))
			for k := 0; k < nProg; k++ {
				var src string
				if c.Quick() {
					src = Pick(r, items).Source
				} else {
					src = items[k].Source
				}
				for _, m := range detModes(r, src) {
					jobs = append(jobs, job{src, m})
				}
			}
			for k := 0; k < c.N(40, 600); k++ {
				src := tieProgram(r)
				for _, m := range detModes(r, src) {
					jobs = append(jobs, job{src, m})
				}
			}
			c.Eng.Map(len(jobs), func(s *Slot, i int) {
				j := jobs[i]
				rr := c.RNG.Sub(uint64(1000 + i))
				bb := 0
				if rr.Intn(100) < c.N(8, 6) {
					bb = 3
				}
				dc := &detCase{Exec: srcExec(j.src, j.argv...)}
				if i%211 == 0 {
					c.Sample(map[string]any{"argv": dc.Exec.Argv, "source": clip(j.src, 300)})
				}
				if v := judgeDet(c, s, dc, 4, bb); v != nil {
					c.Report(v)
				}
			})
			if !c.Quick() {
				raceGate(c, items)
			}
		}})
}

// raceGate runs the corpus through the race-detector build of the serve
// worker (the only sanitizer with a subject in this repository).
func raceGate(c *CheckCtx, items []*CorpusItem) {
	logDir := scratchRoot + "/racelogs"
	c.Eng.RaceLogDir = logDir
	mkdirAll(logDir)
	if c.Eng.B.NeedRace() == "" {
		c.Event("race_build_failed", 1)
		return
	}
	n := len(items)
	c.Eng.Map(n, func(s *Slot, i int) {
		s.useRace = true
		defer func() { s.useRace = false }()
		for _, m := range [][]string{{}, {"-i"}, {"--llm-define"}, {"--suggest", "--row=3"}} {
			s.InProc().Run(srcExec(items[i].Source, m...))
			c.Event("race_build_runs", 1)
		}
	})
	for _, s := range c.Eng.slots {
		s.closeAll()
	}
	// also the real main() with its watchdog goroutine, black-box
	race := c.Eng.B.Race
	for i := 0; i < 40 && i < len(items); i++ {
		s := c.Eng.MainSlot()
		dir := s.prepare(srcExec(items[i].Source))
		runBinary(c.Eng, race, dir, []string{targetFile}, []string{"GORACE=atexit_sleep_ms=0 halt_on_error=0 log_path=" + logDir + "/race"})
		c.Event("race_build_blackbox_runs", 1)
	}
	reports := countRaceReports(logDir)
	c.Extra("race_reports", reports)
	if reports > 0 {
		c.Report(&Violation{Sig: "race:data-race", Kind: "race", Case: mustJSON(map[string]any{}), What: fmt.Sprintf("%d `WARNING: DATA RACE` blocks in the race-detector log", reports), Observed: firstRaceReport(logDir)})
	}
}
