package main

import (
	"bytes"
	"encoding/json"
	"fmt"
	"os"
	"os/exec"
	"path/filepath"
	"sort"
	"strings"
	"sync"
)

// ---------------------------------------------------------------------------
// C25 (rbs2json) and C26 (c2json): converters monitored end to end

// runTool executes a converter binary with the given PATH prefix.
func runTool(bin string, dir string, pathPrefix string, args ...string) (stdout, stderr string, exit int) {
	cmd := exec.Command(bin, args...)
	cmd.Dir = dir
	env := os.Environ()
	if pathPrefix != "" {
		for i, e := range env {
			if strings.HasPrefix(e, "PATH=") {
				env[i] = "PATH=" + pathPrefix + ":" + e[5:]
			}
		}
	}
	cmd.Env = env
	var so, se bytes.Buffer
	cmd.Stdout = &so
	cmd.Stderr = &se
	err := cmd.Run()
	if err != nil {
		if ee, ok := err.(*exec.ExitError); ok {
			exit = ee.ExitCode()
		} else {
			exit = -1
		}
	}
	return so.String(), se.String(), exit
}

// ----- RBS AST generation

type rbsT = map[string]any

func rbsInst(name string, args ...rbsT) rbsT {
	a := []any{}
	for _, x := range args {
		a = append(a, x)
	}
	return rbsT{"class": "class_instance", "name": "::" + name, "args": a}
}

type rbsTypeSpec struct {
	ast  rbsT
	want []string // expected ti type names (documented mapping)
	lit  string   // a Ruby literal of that type
}

func genRbsType(r *RNG, depth int) rbsTypeSpec {
	switch r.Intn(11) {
	case 0:
		return rbsTypeSpec{rbsInst("Integer"), []string{"Int"}, "1"}
	case 1:
		return rbsTypeSpec{rbsInst("String"), []string{"String"}, "\"s\""}
	case 2:
		return rbsTypeSpec{rbsInst("Float"), []string{"Float"}, "1.5"}
	case 3:
		return rbsTypeSpec{rbsInst("Symbol"), []string{"Symbol"}, ":a"}
	case 4:
		return rbsTypeSpec{rbsT{"class": "bool"}, []string{"Bool"}, "true"}
	case 5:
		return rbsTypeSpec{rbsT{"class": "untyped"}, []string{"Untyped"}, "1"}
	case 6:
		if depth > 0 {
			in := genRbsType(r, 0)
			if len(in.want) == 1 && in.want[0] != "Untyped" && in.want[0] != "NilClass" {
				return rbsTypeSpec{rbsT{"class": "optional", "type": in.ast}, append(append([]string{}, in.want...), "NilClass"), in.lit}
			}
		}
		return rbsTypeSpec{rbsInst("Integer"), []string{"Int"}, "1"}
	case 7:
		if depth > 0 {
			a, b := genRbsType(r, 0), genRbsType(r, 0)
			if a.want[0] != "Untyped" && b.want[0] != "Untyped" && len(a.want) == 1 && len(b.want) == 1 {
				w := a.want
				if b.want[0] != a.want[0] {
					w = append(append([]string{}, a.want...), b.want...)
				}
				return rbsTypeSpec{rbsT{"class": "union", "types": []any{a.ast, b.ast}}, w, a.lit}
			}
		}
		return rbsTypeSpec{rbsInst("String"), []string{"String"}, "\"s\""}
	case 8:
		in := genRbsType(r, 0)
		if len(in.want) == 1 {
			return rbsTypeSpec{rbsInst("Array", in.ast), []string{"[" + in.want[0] + "]"}, "[" + in.lit + "]"}
		}
		return rbsTypeSpec{rbsInst("Array"), []string{"Array"}, "[1]"}
	case 9:
		return rbsTypeSpec{rbsInst("Hash"), []string{"Hash"}, "{a: 1}"}
	default:
		return rbsTypeSpec{rbsT{"class": "nil"}, []string{"NilClass"}, "nil"}
	}
}

type rbsOverload struct {
	req, opt, trail []rbsTypeSpec
	rest            *rbsTypeSpec
	reqKw, optKw    map[string]rbsTypeSpec
	ret             rbsTypeSpec
	block           bool
}

type rbsMethod struct {
	name      string
	singleton bool
	overloads []rbsOverload
	arity     bool // every parameter is untyped: any diagnostic on a call is about arity
}

type rbsClass struct {
	name    string
	module  bool
	super   string
	methods []rbsMethod
	nested  []rbsClass
}

func genRbsOverload(r *RNG) rbsOverload {
	var o rbsOverload
	for i := r.Intn(3); i > 0; i-- {
		o.req = append(o.req, genRbsType(r, 1))
	}
	for i := r.Intn(3); i > 0; i-- {
		o.opt = append(o.opt, genRbsType(r, 1))
	}
	if r.Chance(1, 4) {
		t := genRbsType(r, 0)
		o.rest = &t
		if r.Chance(1, 3) {
			o.trail = append(o.trail, genRbsType(r, 0))
		}
	}
	kwNames := []string{"alpha", "beta", "gamma", "delta", "omega", "kappa"}
	Shuffle(r, kwNames)
	o.reqKw, o.optKw = map[string]rbsTypeSpec{}, map[string]rbsTypeSpec{}
	if r.Chance(1, 3) {
		nk := 1 + r.Intn(5)
		for i := 0; i < nk; i++ {
			if r.Bool() {
				o.reqKw[kwNames[i]] = genRbsType(r, 0)
			} else {
				o.optKw[kwNames[i]] = genRbsType(r, 0)
			}
		}
		if r.Chance(1, 3) {
			// keyword names that differ in letter case only: the emitted order
			// must not hang on how a comparison treats them
			pairs := [][2]string{{"maxSize", "maxsize"}, {"readOnly", "readonly"}, {"alphA", "alpha"}, {"keyID", "keyId"}}
			Shuffle(r, pairs)
			for _, pr := range pairs[:1+r.Intn(3)] {
				t := genRbsType(r, 0)
				for _, n := range pr {
					delete(o.reqKw, n)
					delete(o.optKw, n)
				}
				if r.Bool() {
					o.reqKw[pr[0]], o.reqKw[pr[1]] = t, t
				} else {
					o.optKw[pr[0]], o.optKw[pr[1]] = t, t
				}
			}
		}
	}
	o.ret = genRbsType(r, 1)
	if r.Chance(1, 8) {
		o.ret = rbsTypeSpec{rbsT{"class": "self"}, []string{"Self"}, ""}
	}
	o.block = r.Chance(1, 6)
	return o
}

func params(ts []rbsTypeSpec) []any {
	out := []any{}
	for i, t := range ts {
		out = append(out, rbsT{"type": t.ast, "name": fmt.Sprintf("p%d", i)})
	}
	return out
}

func kwParams(m map[string]rbsTypeSpec) rbsT {
	out := rbsT{}
	for k, t := range m {
		out[k] = rbsT{"type": t.ast, "name": nil}
	}
	return out
}

func (o *rbsOverload) ast() rbsT {
	ft := rbsT{
		"required_positionals": params(o.req), "optional_positionals": params(o.opt), "rest_positionals": nil,
		"trailing_positionals": params(o.trail), "required_keywords": kwParams(o.reqKw), "optional_keywords": kwParams(o.optKw),
		"rest_keywords": nil, "return_type": o.ret.ast,
	}
	if o.rest != nil {
		ft["rest_positionals"] = rbsT{"type": o.rest.ast, "name": "rest"}
	}
	mt := rbsT{"type_params": []any{}, "type": ft, "block": nil}
	if o.block {
		mt["block"] = rbsT{"required": true, "type": rbsT{"required_positionals": params([]rbsTypeSpec{{rbsInst("Integer"), []string{"Int"}, "1"}}), "optional_positionals": []any{}, "rest_positionals": nil, "trailing_positionals": []any{}, "required_keywords": rbsT{}, "optional_keywords": rbsT{}, "rest_keywords": nil, "return_type": rbsT{"class": "untyped"}}}
	}
	return rbsT{"method_type": mt}
}

func (c *rbsClass) ast(member bool) rbsT {
	kind := "class"
	if c.module {
		kind = "module"
	}
	var members []any
	for _, m := range c.methods {
		k := "instance"
		if m.singleton {
			k = "singleton"
		}
		var ovs []any
		for i := range m.overloads {
			ovs = append(ovs, m.overloads[i].ast())
		}
		members = append(members, rbsT{"member": "method_definition", "name": m.name, "kind": k, "visibility": nil, "overloads": ovs, "comment": nil})
	}
	for i := range c.nested {
		members = append(members, c.nested[i].ast(true))
	}
	if members == nil {
		members = []any{}
	}
	d := rbsT{"declaration": kind, "name": c.name, "type_params": []any{}, "members": members, "super_class": nil, "comment": nil}
	if c.super != "" {
		d["super_class"] = rbsT{"name": c.super, "args": []any{}}
	}
	return d
}

func genRbsDoc(r *RNG) []rbsClass {
	names := []string{"Rbsalpha", "Rbsbeta", "Rbsgamma"}
	var out []rbsClass
	n := 1 + r.Intn(2)
	for i := 0; i < n; i++ {
		c := rbsClass{name: names[i], module: r.Chance(1, 5)}
		if i > 0 && !c.module && r.Bool() && !out[0].module {
			c.super = out[0].name
		}
		var nsType *rbsTypeSpec
		if i == 0 && r.Bool() {
			// a nested class, used as a parameter type under its qualified name
			c.nested = []rbsClass{{name: "Inner", methods: []rbsMethod{{name: "initialize", overloads: []rbsOverload{{ret: rbsTypeSpec{rbsT{"class": "void"}, []string{"NilClass"}, ""}}}}}}}
			nsType = &rbsTypeSpec{rbsInst(c.name + "::Inner"), []string{c.name + "::Inner"}, "nsv"}
		}
		nm := 1 + r.Intn(4)
		for k := 0; k < nm; k++ {
			m := rbsMethod{name: fmt.Sprintf("rm%d", k), singleton: c.module || r.Chance(1, 3)}
			nsMethod := false
			no := 1
			if r.Chance(1, 4) {
				no = 2 + r.Intn(2)
			}
			m.arity = r.Bool()
			for q := 0; q < no; q++ {
				o := genRbsOverload(r)
				if m.arity {
					un := rbsTypeSpec{rbsT{"class": "untyped"}, []string{"Untyped"}, "1"}
					if nsType != nil && q == 0 && r.Chance(1, 3) || (q > 0 && nsMethod) {
						// every parameter takes an instance of the nested class
						un = *nsType
						nsMethod = true
					}
					for i := range o.req {
						o.req[i] = un
					}
					for i := range o.opt {
						o.opt[i] = un
					}
					for i := range o.trail {
						o.trail[i] = un
					}
					if o.rest != nil {
						o.rest = &un
					}
					for k := range o.reqKw {
						o.reqKw[k] = un
					}
					for k := range o.optKw {
						o.optKw[k] = un
					}
				}
				m.overloads = append(m.overloads, o)
			}
			c.methods = append(c.methods, m)
		}
		if len(out) == 0 && r.Bool() {
			// one class method with three overloads that declare the same keyword
			// differently: required, required after a positional, optional after two
			un := rbsTypeSpec{rbsT{"class": "untyped"}, []string{"Untyped"}, "1"}
			retOf := func(n string) rbsTypeSpec {
				w := n
				if n == "Integer" {
					w = "Int" // the documented mapping
				}
				return rbsTypeSpec{rbsInst(n), []string{w}, ""}
			}
			kw := Pick(r, []string{"path", "mode", "alpha"})
			ov := func(npos int, optional bool, ret string) rbsOverload {
				o := rbsOverload{reqKw: map[string]rbsTypeSpec{}, optKw: map[string]rbsTypeSpec{}, ret: retOf(ret)}
				for i := 0; i < npos; i++ {
					o.req = append(o.req, un)
				}
				if optional {
					o.optKw[kw] = un
				} else {
					o.reqKw[kw] = un
				}
				return o
			}
			c.methods = append(c.methods, rbsMethod{name: "kwo", singleton: true, arity: true, overloads: []rbsOverload{ov(0, false, "Integer"), ov(1, false, "String"), ov(2, true, "Symbol")}})
		}
		if !c.module {
			c.methods = append(c.methods, rbsMethod{name: "initialize", overloads: []rbsOverload{{ret: rbsTypeSpec{rbsT{"class": "void"}, []string{"NilClass"}, ""}}}})
		}
		out = append(out, c)
	}
	return out
}

type rbsCase struct {
	AST   json.RawMessage `json:"ast"`
	Calls string          `json:"calls,omitempty"`
}

type tiArgOut struct {
	Type       []string `json:"type"`
	Key        string   `json:"key"`
	IsAsterisk bool     `json:"is_asterisk"`
	IsDefault  bool     `json:"is_default"`
}

type tiMethodOut struct {
	Name       string     `json:"name"`
	Arguments  []tiArgOut `json:"arguments"`
	ReturnType struct {
		Type []string `json:"type"`
	} `json:"return_type"`
}

type tiClassOut struct {
	Frame           string        `json:"frame"`
	Class           string        `json:"class"`
	Extends         []string      `json:"extends"`
	InstanceMethods []tiMethodOut `json:"instance_methods"`
	ClassMethods    []tiMethodOut `json:"class_methods"`
}

func sameStrings(a, b []string) bool {
	if len(a) != len(b) {
		return false
	}
	for i := range a {
		if a[i] != b[i] {
			return false
		}
	}
	return true
}

// fakeRubyDir creates a directory holding a `ruby` that prints its second
// argument (the real script only runs `rbs` and prints the AST JSON).
var fakeRubyOnce sync.Once

func fakeRubyDir() string {
	d := filepath.Join(scratchRoot, "fakeruby")
	fakeRubyOnce.Do(func() {
		os.MkdirAll(d, 0o755)
		os.WriteFile(filepath.Join(d, "ruby"), []byte("#!/bin/sh\ncat \"$2\"\n"), 0o755)
	})
	return d
}

func judgeRbs(c *CheckCtx, s *Slot, classes []rbsClass, rc *rbsCase) *Violation {
	dir := filepath.Join(s.root, "rbs")
	os.MkdirAll(dir, 0o755)
	in := filepath.Join(dir, "input.rbs")
	os.WriteFile(in, rc.AST, 0o644)
	fr := fakeRubyDir()
	var first string
	for i := 0; i < 6; i++ {
		out, se, ex := runTool(c.Eng.B.Rbs2json, dir, fr, in)
		c.Eval(1)
		if ex != 0 {
			return &Violation{Sig: "rbs2json:exit", Kind: "rbs", Case: mustJSON(rc), What: fmt.Sprintf("ti-rbs2json exits with status %d: %s", ex, oneLine(se, 300))}
		}
		if i == 0 {
			first = out
			continue
		}
		if out != first {
			return &Violation{Sig: "rbs2json:nondeterministic", Kind: "rbs", Case: mustJSON(rc),
				What: "two conversions of the same RBS declarations print different JSON", Expected: clip(first, 2500), Observed: clip(out, 2500)}
		}
	}
	c.Event("conversions_compared", 6)
	c.Nontrivial(string(rc.AST))
	if classes == nil {
		return nil // replay: determinism only
	}
	// shape
	var outs []tiClassOut
	if strings.HasPrefix(strings.TrimSpace(first), "[") {
		json.Unmarshal([]byte(first), &outs)
	} else {
		var one tiClassOut
		json.Unmarshal([]byte(first), &one)
		outs = []tiClassOut{one}
	}
	byName := map[string]*tiClassOut{}
	for i := range outs {
		byName[outs[i].Class] = &outs[i]
	}
	for _, cl := range classes {
		oc := byName[cl.name]
		if oc == nil {
			return &Violation{Sig: "rbs2json:class-missing", Kind: "rbs", Case: mustJSON(rc), What: "class " + cl.name + " is missing from the output", Observed: clip(first, 2000)}
		}
		for _, m := range cl.methods {
			name := m.name
			list := oc.InstanceMethods
			if m.singleton {
				list = oc.ClassMethods
			}
			if name == "initialize" {
				name, list = "new", oc.ClassMethods
			}
			var emitted []tiMethodOut
			for _, em := range list {
				if em.Name == name {
					emitted = append(emitted, em)
				}
			}
			if len(emitted) != len(m.overloads) {
				return &Violation{Sig: "rbs2json:overload-count", Kind: "rbs", Case: mustJSON(rc), What: fmt.Sprintf("%s.%s: %d overloads declared, %d emitted", cl.name, m.name, len(m.overloads), len(emitted)), Observed: clip(first, 2000)}
			}
			for oi, o := range m.overloads {
				var want []tiArgOut
				for _, t := range o.req {
					want = append(want, tiArgOut{Type: t.want})
				}
				for _, t := range o.opt {
					want = append(want, tiArgOut{Type: t.want, IsDefault: true})
				}
				if o.rest != nil {
					want = append(want, tiArgOut{Type: o.rest.want, IsAsterisk: true})
				}
				for _, t := range o.trail {
					want = append(want, tiArgOut{Type: t.want})
				}
				got := emitted[oi].Arguments
				npos := len(want)
				c.Event("overload_shapes_checked", 1)
				if len(got) != npos+len(o.reqKw)+len(o.optKw) {
					return &Violation{Sig: "rbs2json:argument-count", Kind: "rbs", Case: mustJSON(rc), What: fmt.Sprintf("%s.%s overload %d: %d arguments emitted, %d declared", cl.name, m.name, oi, len(got), npos+len(o.reqKw)+len(o.optKw)), Observed: clip(first, 2000)}
				}
				for i := 0; i < npos; i++ {
					if got[i].Key != "" || got[i].IsDefault != want[i].IsDefault || got[i].IsAsterisk != want[i].IsAsterisk {
						return &Violation{Sig: "rbs2json:positional-order", Kind: "rbs", Case: mustJSON(rc), What: fmt.Sprintf("%s.%s overload %d: positional argument %d is out of order (want required, optional, rest, trailing)", cl.name, m.name, oi, i), Observed: clip(first, 2000)}
					}
					if !sameStrings(got[i].Type, want[i].Type) {
						return &Violation{Sig: "rbs2json:type-mapping:" + strings.Join(want[i].Type, "|"), Kind: "rbs", Case: mustJSON(rc), What: fmt.Sprintf("%s.%s overload %d argument %d: type %v, documented mapping gives %v", cl.name, m.name, oi, i, got[i].Type, want[i].Type), Observed: clip(first, 2000)}
					}
				}
				// keywords: required before optional
				seenOptional := false
				for i := npos; i < len(got); i++ {
					k := strings.TrimSuffix(got[i].Key, ":")
					_, isReq := o.reqKw[k]
					_, isOpt := o.optKw[k]
					switch {
					case got[i].Key == "" || (!isReq && !isOpt):
						return &Violation{Sig: "rbs2json:keyword-missing", Kind: "rbs", Case: mustJSON(rc), What: fmt.Sprintf("%s.%s overload %d: argument %d should be a declared keyword", cl.name, m.name, oi, i), Observed: clip(first, 2000)}
					case isOpt && !got[i].IsDefault, isReq && got[i].IsDefault:
						return &Violation{Sig: "rbs2json:keyword-default-flag", Kind: "rbs", Case: mustJSON(rc), What: fmt.Sprintf("%s.%s overload %d: keyword %s has the wrong is_default", cl.name, m.name, oi, k), Observed: clip(first, 2000)}
					case isReq && seenOptional:
						return &Violation{Sig: "rbs2json:keyword-order", Kind: "rbs", Case: mustJSON(rc), What: fmt.Sprintf("%s.%s overload %d: required keyword %s after an optional one", cl.name, m.name, oi, k), Observed: clip(first, 2000)}
					}
					if isOpt {
						seenOptional = true
					}
				}
				if !sameStrings(emitted[oi].ReturnType.Type, o.ret.want) && !(name == "new") {
					return &Violation{Sig: "rbs2json:return-mapping:" + strings.Join(o.ret.want, "|"), Kind: "rbs", Case: mustJSON(rc), What: fmt.Sprintf("%s.%s overload %d: return type %v, documented mapping gives %v", cl.name, m.name, oi, emitted[oi].ReturnType.Type, o.ret.want), Observed: clip(first, 2000)}
				}
			}
		}
	}
	// arity through ti: load the emitted classes and call with k = 0..6 positionals
	extra := map[string]string{}
	for i := range outs {
		b, _ := json.Marshal(outs[i])
		// re-marshal from the raw output to keep every field
		_ = b
	}
	var rawList []json.RawMessage
	if strings.HasPrefix(strings.TrimSpace(first), "[") {
		json.Unmarshal([]byte(first), &rawList)
	} else {
		rawList = []json.RawMessage{json.RawMessage(first)}
	}
	for i, raw := range rawList {
		extra[fmt.Sprintf("zz_rbs_%d.json", i)] = string(raw)
	}
	cfg := cfgWith(extra)
	var sb strings.Builder
	type expect struct {
		row    int
		accept bool
		desc   string
		shape  string
	}
	shapeOf := func(m rbsMethod) string {
		f := map[string]bool{}
		for _, o := range m.overloads {
			if len(o.req) > 0 {
				f["req"] = true
			}
			if len(o.opt) > 0 {
				f["opt"] = true
			}
			if o.rest != nil {
				f["rest"] = true
			}
			if len(o.trail) > 0 {
				f["trail"] = true
			}
			if len(o.reqKw)+len(o.optKw) > 0 {
				f["kw"] = true
			}
			if o.block {
				f["block"] = true
			}
		}
		if len(m.overloads) > 1 {
			f["overloads"] = true
		}
		var parts []string
		for k := range f {
			parts = append(parts, k)
		}
		// two shapes ti's call checking is known not to model (see KNOWN_FINDINGS):
		switch {
		case f["trail"] && (f["opt"] || f["rest"]):
			return "trailing-after-optional-or-rest"
		case f["kw"] && f["overloads"]:
			return "keywords-in-overloads"
		}
		return strings.Join(dedupSorted(parts), "+")
	}
	var exps []expect
	row := 0
	if len(classes) > 0 && len(classes[0].nested) > 0 {
		row++
		fmt.Fprintf(&sb, "nsv = %s::Inner.new\n", classes[0].name)
	}
	for _, cl := range classes {
		recv := ""
		if !cl.module {
			row++
			fmt.Fprintf(&sb, "rv_%s = %s.new\n", strings.ToLower(cl.name), cl.name)
			recv = "rv_" + strings.ToLower(cl.name)
		}
		for _, m := range cl.methods {
			if m.name == "initialize" || !m.arity {
				continue
			}
			for k := 0; k <= 6; k++ {
				accept := false
				var args []string
				for _, o := range m.overloads {
					min := len(o.req) + len(o.trail)
					max := min + len(o.opt)
					if (k >= min && (k <= max || o.rest != nil)) && !accept {
						accept = true
						// literals by position: required, then as many optionals as fit,
						// then rest extras, then the trailing ones
						args = nil
						mid := k - len(o.req) - len(o.trail)
						for _, t := range o.req {
							args = append(args, t.lit)
						}
						for i := 0; i < mid; i++ {
							switch {
							case i < len(o.opt):
								args = append(args, o.opt[i].lit)
							default:
								args = append(args, o.rest.lit)
							}
						}
						for _, t := range o.trail {
							args = append(args, t.lit)
						}
						for kw, t := range o.reqKw {
							args = append(args, kw+": "+t.lit)
						}
					}
				}
				if !accept {
					for i := 0; i < k; i++ {
						args = append(args, "1")
					}
					for kw, t := range m.overloads[0].reqKw {
						args = append(args, kw+": "+t.lit)
					}
				}
				target := recv
				if m.singleton {
					target = cl.name
				}
				if target == "" {
					continue
				}
				row++
				call := target + "." + m.name + "(" + strings.Join(args, ", ") + ")"
				if m.overloads[0].block {
					call += " { |bx| bx }"
				}
				sb.WriteString(call + "\n")
				exps = append(exps, expect{row, accept, fmt.Sprintf("%s.%s with %d positional(s)", cl.name, m.name, k), shapeOf(m)})
				// the same positionals without any keyword: rejected when every
				// overload that admits k positionals requires a keyword
				if accept {
					needKw, free := false, false
					for _, o := range m.overloads {
						min := len(o.req) + len(o.trail)
						max := min + len(o.opt)
						if k >= min && (k <= max || o.rest != nil) {
							if len(o.reqKw) > 0 {
								needKw = true
							} else {
								free = true
							}
						}
					}
					// (not for the shape with a listed finding: its positional
					// binding is known to be off, which decides this call too)
					if needKw && !free && shapeOf(m) != "trailing-after-optional-or-rest" {
						var pos []string
						for _, a := range args {
							if !strings.Contains(a, ": ") {
								pos = append(pos, a)
							}
						}
						row++
						call := target + "." + m.name + "(" + strings.Join(pos, ", ") + ")"
						if m.overloads[0].block {
							call += " { |bx| bx }"
						}
						sb.WriteString(call + "\n")
						exps = append(exps, expect{row, false, fmt.Sprintf("%s.%s with %d positional(s) and no keyword although one is required", cl.name, m.name, k), shapeOf(m) + "+required-keyword-omitted"})
					}
				}
			}
		}
	}
	rc.Calls = sb.String()
	res := s.InProc().Run(&Exec{Files: map[string]string{targetFile: rc.Calls}, Argv: []string{targetFile}, Config: cfg})
	c.Eval(1)
	if !res.Normal() {
		res = s.BlackBox().Run(&Exec{Files: map[string]string{targetFile: rc.Calls}, Argv: []string{targetFile}, Config: cfg})
		if res.Crashed() || res.Timeout() {
			c.Event("skipped_crash_or_hang", 1)
			return nil
		}
	}
	bad := map[int]string{}
	for _, r := range parseOut(res.Stdout) {
		if r.Row > 0 && !r.Hint {
			bad[r.Row] = r.Msg
		}
	}
	var pending *Violation
	for _, e := range exps {
		c.Event("arity_calls_judged", 1)
		_, rejected := bad[e.row]
		if e.accept == rejected {
			// confirm on the plain binary
			bb := s.BlackBox().Run(&Exec{Files: map[string]string{targetFile: rc.Calls}, Argv: []string{targetFile}, Config: cfg})
			bbBad := false
			for _, r := range parseOut(bb.Stdout) {
				if r.Row == e.row && !r.Hint {
					bbBad = true
				}
			}
			if bbBad != rejected {
				c.Event("driver_divergence", 1)
				continue
			}
			kind := "rejects-allowed-arity"
			if !e.accept {
				kind = "accepts-forbidden-arity"
			}
			v := &Violation{Sig: aritySig(kind, e.shape), Kind: "rbs", Case: mustJSON(rc),
				What:     fmt.Sprintf("ti, loaded with the converted configuration, %s: %s (row %d: %s)", kind, e.desc, e.row, bad[e.row]),
				Observed: clip(res.Stdout, 2500)}
			// a method of a shape with a listed finding must not hide another method's violation
			if e.shape == "trailing-after-optional-or-rest" || e.shape == "keywords-in-overloads" {
				if pending == nil {
					pending = v
				}
				continue
			}
			return v
		}
	}
	return pending
}

func aritySig(kind, shape string) string {
	if shape == "trailing-after-optional-or-rest" || shape == "keywords-in-overloads" {
		return "rbs2json:arity:" + shape
	}
	return "rbs2json:arity:" + kind + ":" + shape
}

func init() {
	register(&Check{ID: "C25", Title: "rbs2json is deterministic and keeps signature shape", NeedTools: true,
		Replay: func(c *CheckCtx, s *Slot, v *Violation) *Violation {
			var rc rbsCase
			if json.Unmarshal(v.Case, &rc) != nil {
				return nil
			}
			return judgeRbs(c, s, nil, &rc)
		},
		Run: func(c *CheckCtx) {
			c.rule = "generated RBS AST documents (the JSON the embedded Ruby script prints: classes, modules, superclasses, instance/singleton methods, 1-3 overloads with required/optional/rest/trailing positionals, 0-5 required/optional keywords (also names that differ in letter case only), blocks, initialize, a nested class used as parameter type under its qualified name) fed to ti-rbs2json through a stand-in `ruby` first on PATH that prints the prepared document; each document is converted 6 times (byte equality), the emitted argument order/flags and the type mapping are compared with the declaration, and ti - loaded with the shipped configuration plus the emitted classes - is asked to check calls with 0..6 positional arguments (required keywords supplied), which must be accepted exactly when some overload's arity admits them, and rejected without keywords when every admitting overload requires one. distinct_nontrivial = distinct documents"
			c.assumptions = []string{"the stand-in `ruby` replaces only the `rbs` parser invocation; the converter binary itself is the real one built from the tree", "type mapping judged: Integer, String, Float, Symbol, bool, nil, void, untyped, self, optional, union, Array[T], Hash"}
			r := c.RNG.Sub(25)
			n := c.N(70, 1500)
			type job struct {
				classes []rbsClass
				rc      *rbsCase
			}
			jobs := make([]job, n)
			for i := range jobs {
				cls := genRbsDoc(r)
				var decls []any
				for k := range cls {
					decls = append(decls, cls[k].ast(false))
				}
				b, _ := json.Marshal(decls)
				jobs[i] = job{cls, &rbsCase{AST: b}}
			}
			c.Eng.Map(n, func(s *Slot, i int) {
				if i%37 == 0 {
					c.Sample(map[string]any{"rbs_ast": clip(string(jobs[i].rc.AST), 600)})
				}
				if v := judgeRbs(c, s, jobs[i].classes, jobs[i].rc); v != nil {
					c.Report(v)
				}
			})
		}})
}

var _ = sort.Strings

// ---------------------------------------------------------------------------
// C26: c2json arity equals the C binding's arity

type cMethod struct {
	Name    string `json:"name"`
	Static  bool   `json:"static"`
	Style   string `json:"style"` // aspec | format | mrbc
	Aspec   string `json:"aspec,omitempty"`
	Format  string `json:"format,omitempty"`
	Min     int    `json:"min"`
	Max     int    `json:"max"` // -1 = unbounded
	ArgLits []string `json:"arg_lits"`
	Source  string `json:"source"`
	Define  string `json:"define"`
}

type cCase struct {
	Source  string     `json:"source"`
	Methods []*cMethod `json:"methods"`
	Calls   string     `json:"calls,omitempty"`
}

var fmtChars = []struct{ ch, lit string }{{"i", "1"}, {"f", "1.5"}, {"s", "\"s\""}, {"z", "\"s\""}, {"S", "\"s\""}, {"A", "[1]"}, {"H", "{a: 1}"}, {"b", "true"}, {"n", ":a"}, {"o", "1"}}

func genCMethod(r *RNG, idx int) *cMethod {
	m := &cMethod{Name: fmt.Sprintf("cm%d", idx), Static: r.Chance(1, 3)}
	fn := fmt.Sprintf("c_cgen_%s", m.Name)
	switch r.Intn(3) {
	case 0: // MRB_ARGS spec only
		m.Style = "aspec"
		switch r.Intn(8) {
		case 0:
			m.Aspec, m.Min, m.Max = "MRB_ARGS_NONE()", 0, 0
		case 1:
			m.Aspec, m.Min, m.Max = "MRB_ARGS_ANY()", 0, -1
		default:
			req, opt, post := r.Intn(3), 0, 0
			var parts []string
			if req > 0 || r.Bool() {
				parts = append(parts, fmt.Sprintf("MRB_ARGS_REQ(%d)", req))
			} else {
				req = 0
			}
			if r.Chance(1, 2) {
				opt = 1 + r.Intn(2)
				parts = append(parts, fmt.Sprintf("MRB_ARGS_OPT(%d)", opt))
			}
			rest := r.Chance(1, 4)
			if rest {
				parts = append(parts, "MRB_ARGS_REST()")
				if r.Chance(1, 3) {
					post = 1
					parts = append(parts, "MRB_ARGS_POST(1)")
				}
			}
			if r.Chance(1, 5) {
				parts = append(parts, "MRB_ARGS_BLOCK()")
			}
			if len(parts) == 0 {
				parts = []string{"MRB_ARGS_REQ(1)"}
				req = 1
			}
			m.Aspec = strings.Join(parts, "|")
			m.Min, m.Max = req+post, req+opt+post
			if rest {
				m.Max = -1
			}
		}
		m.Source = fmt.Sprintf("static mrb_value %s(mrb_state *mrb, mrb_value self)\n{\n  return mrb_nil_value();\n}\n", fn)
	case 1: // mrb_get_args format
		m.Style = "format"
		req, opt := r.Intn(3), 0
		var f strings.Builder
		for i := 0; i < req; i++ {
			c := Pick(r, fmtChars)
			f.WriteString(c.ch)
			m.ArgLits = append(m.ArgLits, c.lit)
			if r.Chance(1, 8) {
				f.WriteString("!")
			}
		}
		if r.Chance(1, 2) {
			opt = 1 + r.Intn(2)
			f.WriteString("|")
			for i := 0; i < opt; i++ {
				c := Pick(r, fmtChars)
				f.WriteString(c.ch)
				m.ArgLits = append(m.ArgLits, c.lit)
				if r.Chance(1, 6) {
					f.WriteString("?")
				}
			}
		}
		rest := r.Chance(1, 5)
		if rest {
			f.WriteString("*")
		}
		if r.Chance(1, 6) {
			f.WriteString("&")
		}
		m.Format = f.String()
		if m.Format == "" {
			m.Format = "|i"
			opt = 1
			m.ArgLits = []string{"1"}
		}
		m.Min, m.Max = req, req+opt
		if rest {
			m.Max = -1
		}
		m.Aspec = "MRB_ARGS_ANY()"
		if r.Bool() {
			m.Aspec = fmt.Sprintf("MRB_ARGS_REQ(%d)", req)
			if opt > 0 {
				m.Aspec += fmt.Sprintf("|MRB_ARGS_OPT(%d)", opt)
			}
		}
		m.Source = fmt.Sprintf("static mrb_value %s(mrb_state *mrb, mrb_value self)\n{\n  mrb_int a0 = 0;\n  mrb_get_args(mrb, \"%s\", &a0);\n  return mrb_fixnum_value(a0);\n}\n", fn, m.Format)
	default: // mruby/c style
		m.Style = "mrbc"
		req, opt := r.Intn(3), r.Intn(3)
		if req+opt == 0 {
			req = 1
		}
		var b strings.Builder
		kinds := []struct{ k, lit string }{{"INT", "1"}, {"FLOAT", "1.5"}, {"STRING", "\"s\""}}
		for i := 1; i <= req; i++ {
			k := Pick(r, kinds)
			fmt.Fprintf(&b, "  int v%d = GET_%s_ARG(%d);\n", i, k.k, i)
			m.ArgLits = append(m.ArgLits, k.lit)
		}
		// the guards of the optional arguments: ascending, descending, or as one
		// if / else-if chain from the highest count down
		var guards []string
		for i := req + 1; i <= req+opt; i++ {
			k := Pick(r, kinds)
			guards = append(guards, fmt.Sprintf("(argc >= %d) {\n    int v%d = GET_%s_ARG(%d);\n  }", i, i, k.k, i))
			m.ArgLits = append(m.ArgLits, k.lit)
		}
		switch order := r.Intn(3); {
		case order == 0 || len(guards) < 2:
			for _, g := range guards {
				b.WriteString("  if " + g + "\n")
			}
		case order == 1:
			for i := len(guards) - 1; i >= 0; i-- {
				b.WriteString("  if " + guards[i] + "\n")
			}
		default:
			for i := len(guards) - 1; i >= 0; i-- {
				if i == len(guards)-1 {
					b.WriteString("  if " + guards[i])
				} else {
					b.WriteString(" else if " + guards[i])
				}
			}
			b.WriteString("\n")
		}
		m.Min, m.Max = req, req+opt
		m.Source = fmt.Sprintf("static void %s(mrbc_vm *vm, mrbc_value v[], int argc)\n{\n%s  SET_NIL_RETURN();\n}\n", fn, b.String())
	}
	switch {
	case m.Style == "mrbc" && m.Static:
		m.Define = fmt.Sprintf("  mrbc_define_class_method(vm, cls, \"%s\", %s);", m.Name, fn)
	case m.Style == "mrbc":
		m.Define = fmt.Sprintf("  mrbc_define_method(vm, cls, \"%s\", %s);", m.Name, fn)
	case r.Chance(1, 3):
		st := ""
		if m.Static {
			st = "class_"
		}
		m.Define = fmt.Sprintf("  mrb_define_%smethod_id(mrb, cls, MRB_SYM(%s), %s, %s);", st, m.Name, fn, m.Aspec)
	default:
		st := ""
		if m.Static {
			st = "class_"
		}
		m.Define = fmt.Sprintf("  mrb_define_%smethod(mrb, cls, \"%s\", %s, %s);", st, m.Name, fn, m.Aspec)
	}
	return m
}

func judgeC(c *CheckCtx, s *Slot, cc *cCase) *Violation {
	dir := filepath.Join(s.root, "c2j")
	os.MkdirAll(dir, 0o755)
	in := filepath.Join(dir, "input.c")
	os.WriteFile(in, []byte(cc.Source), 0o644)
	var first string
	for i := 0; i < 3; i++ {
		out, se, ex := runTool(c.Eng.B.C2json, dir, "", "-class", "Cgen", in)
		c.Eval(1)
		if ex != 0 {
			return &Violation{Sig: "c2json:exit", Kind: "c2json", Case: mustJSON(cc), What: fmt.Sprintf("ti-c2json exits with status %d: %s", ex, oneLine(se, 300))}
		}
		if i == 0 {
			first = out
		} else if out != first {
			return &Violation{Sig: "c2json:nondeterministic", Kind: "c2json", Case: mustJSON(cc), What: "two conversions of the same C source differ", Expected: clip(first, 2000), Observed: clip(out, 2000)}
		}
	}
	c.Nontrivial(cc.Source)
	extra := map[string]string{"zz_cgen.json": first, "zz_cgen_new.json": `{"frame":"Builtin","class":"Cgen","class_methods":[{"name":"new","arguments":[],"return_type":{"type":["Cgen"]}}]}`}
	cfg := cfgWith(extra)
	var sb strings.Builder
	sb.WriteString("cg = Cgen.new\n")
	type expect struct {
		row    int
		accept bool
		m      *cMethod
		k      int
	}
	var exps []expect
	row := 1
	for _, m := range cc.Methods {
		for k := 0; k <= 6; k++ {
			var args []string
			for i := 0; i < k; i++ {
				if i < len(m.ArgLits) {
					args = append(args, m.ArgLits[i])
				} else {
					args = append(args, "1")
				}
			}
			recv := "cg"
			if m.Static {
				recv = "Cgen"
			}
			row++
			fmt.Fprintf(&sb, "%s.%s(%s)\n", recv, m.Name, strings.Join(args, ", "))
			exps = append(exps, expect{row, k >= m.Min && (m.Max < 0 || k <= m.Max), m, k})
		}
	}
	cc.Calls = sb.String()
	run := func(rn Runner) (map[int]string, bool) {
		res := rn.Run(&Exec{Files: map[string]string{targetFile: cc.Calls}, Argv: []string{targetFile}, Config: cfg})
		c.Eval(1)
		if (rn.IsBlackBox() && (res.Crashed() || res.Timeout() || res.Watchdog)) || (!rn.IsBlackBox() && !res.Normal()) {
			return nil, false
		}
		bad := map[int]string{}
		for _, r := range parseOut(res.Stdout) {
			if r.Row > 0 && !r.Hint {
				bad[r.Row] = r.Msg
			}
		}
		return bad, true
	}
	bad, ok := run(s.InProc())
	if !ok {
		c.Event("skipped_crash_or_hang", 1)
		return nil
	}
	var bbBad map[int]string
	var pendingC *Violation
	for _, e := range exps {
		c.Event("arity_calls_judged", 1)
		_, rejected := bad[e.row]
		if e.accept != rejected {
			continue
		}
		if bbBad == nil {
			if bbBad, ok = run(s.BlackBox()); !ok {
				return nil
			}
		}
		if _, r2 := bbBad[e.row]; r2 != rejected {
			c.Event("driver_divergence", 1)
			continue
		}
		kind := "rejects-accepted-count"
		if !e.accept {
			kind = "accepts-rejected-count"
		}
		spec := e.m.Style
		switch e.m.Style {
		case "aspec":
			spec += ":" + regexpReplaceDigits(e.m.Aspec)
		case "format":
			spec += ":" + formatShape(e.m.Format)
		case "mrbc":
			spec += fmt.Sprintf(":req%d-opt%d", e.m.Min, e.m.Max-e.m.Min)
		}
		sig := "c2json:arity:" + kind + ":" + spec
		if e.m.Style == "aspec" && strings.Contains(e.m.Aspec, "POST") && strings.Contains(e.m.Aspec, "OPT") {
			// the shape of the listed finding (ti binds configured parameters left to right)
			sig = "c2json:arity:post-after-optional"
		}
		v := &Violation{Sig: sig, Kind: "c2json", Case: mustJSON(cc),
			What:     fmt.Sprintf("ti, loaded with the configuration emitted by ti-c2json, %s: %s called with %d argument(s); the C definition (%s %s%s) accepts %d..%d (row %d: %s)", kind, e.m.Name, e.k, e.m.Style, e.m.Aspec, e.m.Format, e.m.Min, e.m.Max, e.row, bad[e.row]),
			Expected: e.m.Define + "\n" + e.m.Source, Observed: clip(first, 2500)}
		if sig == "c2json:arity:post-after-optional" {
			if pendingC == nil {
				pendingC = v
			}
			continue
		}
		return v
	}
	return pendingC
}

func regexpReplaceDigits(s string) string { return digitsRe.ReplaceAllString(s, "N") }

// formatShape abstracts a get_args format: argument letters become 'x'.
func formatShape(f string) string {
	var sb strings.Builder
	for _, ch := range f {
		switch ch {
		case '|', '*', '&', '!', '?':
			sb.WriteRune(ch)
		default:
			sb.WriteRune('x')
		}
	}
	return sb.String()
}

func init() {
	register(&Check{ID: "C26", Title: "c2json arity equals the C binding's arity", NeedTools: true,
		Replay: func(c *CheckCtx, s *Slot, v *Violation) *Violation {
			var cc cCase
			if json.Unmarshal(v.Case, &cc) != nil {
				return nil
			}
			return judgeC(c, s, &cc)
		},
		Run: func(c *CheckCtx) {
			c.rule = "generated C sources defining 3-8 methods of one class through mrb_define_method / mrb_define_class_method / mrb_define_method_id / mrbc_define_method / mrbc_define_class_method, with an MRB_ARGS spec only (REQ/OPT/REST/POST/BLOCK/NONE/ANY), with an mrb_get_args format (argument letters, |, *, &, !, ?) or with GET_*_ARG(n) / `if (argc >= n)` patterns (guards ascending, descending, or one else-if chain); ti-c2json converts each source 3 times (byte equality); ti - loaded with the shipped configuration plus the emitted class - checks calls with 0..6 arguments of fitting types, which must be accepted exactly when the generator's model of the C definition accepts that count. distinct_nontrivial = distinct C sources"
			c.assumptions = []string{"model of the C side: aspec-only definitions accept REQ+POST .. REQ+OPT+POST (unbounded with REST, any count for ANY, none for NONE); with mrb_get_args the format decides (letters before | required, after | optional, * unbounded; & ! ? consume no argument); GET_*_ARG(n) read unconditionally are required, those under `if (argc >= n)` optional", "a class method `new` is added in a separate configuration file so that instance methods can be called"}
			r := c.RNG.Sub(26)
			n := c.N(90, 2500)
			jobs := make([]*cCase, n)
			for i := range jobs {
				nm := 3 + r.Intn(6)
				cc := &cCase{}
				var src, defs strings.Builder
				src.WriteString("#include <mruby.h>\n\n")
				for k := 0; k < nm; k++ {
					m := genCMethod(r, k)
					cc.Methods = append(cc.Methods, m)
					src.WriteString(m.Source + "\n")
					defs.WriteString(m.Define + "\n")
				}
				src.WriteString("void mrb_cgen_gem_init(mrb_state *mrb)\n{\n  struct RClass *cls = mrb_define_class(mrb, \"Cgen\", mrb->object_class);\n" + defs.String() + "}\n")
				cc.Source = src.String()
				jobs[i] = cc
			}
			c.Eng.Map(n, func(s *Slot, i int) {
				if i%41 == 0 {
					c.Sample(map[string]any{"c_source": clip(jobs[i].Source, 700)})
				}
				if v := judgeC(c, s, jobs[i]); v != nil {
					c.Report(v)
				}
			})
		}})
}
