package main

import (
	"encoding/json"
	"fmt"
	"regexp"
	"strings"
)

// ---------------------------------------------------------------------------
// C14: keyword argument order at a call site is irrelevant

type kwCase struct {
	Before  string   `json:"before"`  // program text before the call line
	CallFmt string   `json:"callfmt"` // call line with %s where the keyword arguments go
	After   string   `json:"after"`
	Kwargs  []string `json:"kwargs"` // "name: expr" in identity order
	Perm    []int    `json:"perm"`
	Mode    []string `json:"mode"`
	Shape   string   `json:"shape"` // feature label: user/configured, required/default/missing/unknown
	// Multiline: one argument per line inside the parentheses
	Multiline bool `json:"multiline,omitempty"`
}

func (k *kwCase) source(perm []int) string {
	var parts []string
	for _, i := range perm {
		parts = append(parts, k.Kwargs[i])
	}
	if k.Multiline {
		return k.Before + fmt.Sprintf(k.CallFmt, "\n  "+strings.Join(parts, ",\n  ")+"\n") + "\n" + k.After
	}
	return k.Before + fmt.Sprintf(k.CallFmt, strings.Join(parts, ", ")) + "\n" + k.After
}

func judgeKw(c *CheckCtx, rn Runner, k *kwCase) *Violation {
	id := make([]int, len(k.Kwargs))
	for i := range id {
		id[i] = i
	}
	argv := append([]string{targetFile}, k.Mode...)
	o1, ok1 := relRun(c, rn, &Exec{Files: map[string]string{targetFile: k.source(id)}, Argv: argv})
	o2, ok2 := relRun(c, rn, &Exec{Files: map[string]string{targetFile: k.source(k.Perm)}, Argv: argv})
	if !ok1 || !ok2 {
		c.Event("skipped_crash_or_hang", 1)
		return nil
	}
	if o1 != "" {
		c.Event("pairs_with_output", 1)
		c.Nontrivial(fmt.Sprint(k.Perm) + "\x00" + strings.Join(k.Mode, " ") + "\x00" + k.source(id))
	}
	if o1 == o2 {
		return nil
	}
	a, b := parseOut(o1), parseOut(o2)
	sig := "kwargs:" + k.Shape + ":" + diffTemplate(a, b)
	return &Violation{Sig: sig, Kind: "kwargs", Case: mustJSON(k),
		What:     fmt.Sprintf("permuting the keyword arguments of a call (%s; order %v) changes the output (argv %v)", k.Shape, k.Perm, k.Mode),
		Expected: clip(o1, 3000), Observed: clip(o2, 3000)}
}

func permutations(n int) [][]int {
	var out [][]int
	var rec func(cur []int, used []bool)
	rec = func(cur []int, used []bool) {
		if len(cur) == n {
			out = append(out, append([]int{}, cur...))
			return
		}
		for i := 0; i < n; i++ {
			if !used[i] {
				used[i] = true
				rec(append(cur, i), used)
				used[i] = false
			}
		}
	}
	rec(nil, make([]bool, n))
	return out
}

var kwValueExprs = []string{"1", "\"s\"", "1.5", ":sym", "nil", "[1]", "true", "{a: 1}",
	// operator expressions of different precedence, calls, nested calls
	"2 * 50", "1 + 0.5", "10 - 3", "7 % 2", "\"a\" + \"b\"", "\"ab\" * 2", "1 + 2 * 3", "2 * 3 + 1", "x0 + 1", "x0.to_s", "\"s\".length", "[1, 2].first", "1.5.to_i + 1", "x0 == 1", "x0 < 2", "-1", "!true"}

// genKwCall builds one program with a keyword-taking method and a call.
func genKwCall(r *RNG) *kwCase {
	nk := 2 + r.Intn(4) // 2..5 keywords
	// name families: plain words; names of which one is another plus a digit, a letter or an
	// underscore (their order depends on how ties at the common prefix are broken); single letters
	// declared in descending order
	names := append([]string{}, Pick(r, [][]string{
		{"alpha", "beta", "gamma", "delta", "omega"},
		{"alpha", "beta", "gamma", "delta", "omega"},
		{"v", "v2", "v10", "va", "v_"},
		{"key2", "key", "key_b", "ke", "keyb"},
		{"e", "d", "c", "b", "a"},
	})[:nk]...)
	if r.Chance(1, 3) {
		Shuffle(r, names)
	}
	required := make([]bool, nk)
	var params []string
	npos := r.Intn(3)
	for i := 0; i < npos; i++ {
		if i > 0 && r.Bool() {
			params = append(params, fmt.Sprintf("p%d = %d", i, i))
		} else {
			params = append(params, fmt.Sprintf("p%d", i))
		}
	}
	for i, n := range names {
		required[i] = r.Bool()
		if required[i] {
			params = append(params, n+":")
		} else {
			params = append(params, n+": "+Pick(r, kwValueExprs))
		}
	}
	// a method that also collects the remaining keywords in a hash
	dsplat := r.Chance(1, 4)
	if dsplat {
		params = append(params, "**opts")
	}
	var sb strings.Builder
	inClass := r.Chance(1, 2)
	static := inClass && r.Chance(1, 3)
	recvKind := "plain"
	if inClass && !static {
		recvKind = Pick(r, []string{"plain", "plain", "union", "nilable", "variable"})
	}
	ind := ""
	if inClass {
		sb.WriteString("class Kwbox\n")
		ind = "  "
	}
	self := ""
	if static {
		self = "self."
	}
	fmt.Fprintf(&sb, "%sdef %skwm(%s)\n", ind, self, strings.Join(params, ", "))
	for _, n := range names {
		fmt.Fprintf(&sb, "%s  dbtp %s\n", ind, n)
	}
	if dsplat {
		// everything derived from the collected hash
		fmt.Fprintf(&sb, "%s  dbtp opts\n%s  dbtp opts[:zzk1]\n%s  dbtp opts.values\n%s  dbtp opts.keys\n%s  opts.each do |ok, ov|\n%s    dbtp ov\n%s  end\n", ind, ind, ind, ind, ind, ind, ind)
	}
	fmt.Fprintf(&sb, "%s  %s\n%send\n", ind, Pick(r, names), ind)
	if inClass {
		sb.WriteString("end\n")
	}
	recv := ""
	if inClass {
		recv = "Kwbox.new."
		if static {
			recv = "Kwbox."
		}
	}
	switch recvKind {
	case "union":
		// a second class with the same method: the receiver is a union of both
		second := strings.Replace(sb.String(), "class Kwbox", "class Kwother", 1)
		sb.WriteString(second)
		sb.WriteString("kwflag = true\nkwrecv = kwflag ? Kwbox.new : Kwother.new\n")
		recv = "kwrecv."
	case "nilable":
		sb.WriteString("kwflag = true\nkwrecv = kwflag ? Kwbox.new : nil\n")
		recv = "kwrecv&."
	case "variable":
		sb.WriteString("kwrecv = Kwbox.new\n")
		recv = "kwrecv."
	}
	// the call: positionals first, then a selection of keywords
	shape := "user"
	if inClass {
		shape = "user-method-in-class"
	}
	if recvKind != "plain" {
		shape += ":" + recvKind + "-receiver"
	}
	var kws []string
	var pos []string
	for i := 0; i < npos; i++ {
		pos = append(pos, Pick(r, kwValueExprs[:4]))
	}
	variant := r.Intn(4)
	for i, n := range names {
		if variant == 1 && i == 0 {
			continue // one keyword missing
		}
		kws = append(kws, n+": "+Pick(r, kwValueExprs))
	}
	switch variant {
	case 1:
		if required[0] {
			shape += ":required-missing"
		} else {
			shape += ":default-omitted"
		}
	case 2:
		kws = append(kws, "zzunknown: 1")
		shape += ":unknown-keyword"
	default:
		shape += ":all-given"
	}
	if dsplat {
		// two or three more keywords of different classes for the hash
		kws = append(kws, "zzk1: 7", "zzk2: \"info\"")
		if r.Bool() {
			kws = append(kws, "zzk3: 2.5")
		}
		shape += ":double-splat"
	}
	if len(kws) < 2 {
		kws = append(kws, "zzextra: 2")
	}
	// shorthand keywords: `alpha:` passes the local variable alpha
	shorthand := r.Chance(1, 4)
	if shorthand {
		for i, kw := range kws {
			name := kw[:strings.Index(kw, ":")]
			if strings.HasPrefix(name, "zz") || r.Chance(1, 3) {
				continue
			}
			fmt.Fprintf(&sb, "%s = %s\n", name, strings.TrimSpace(kw[strings.Index(kw, ":")+1:]))
			kws[i] = name + ":"
		}
		shape += ":shorthand"
	}
	callArgs := "%s"
	if len(pos) > 0 {
		callArgs = strings.Join(pos, ", ") + ", %s"
	}
	call := "res = " + recv + "kwm(" + callArgs + ")"
	multiline := false
	if r.Chance(1, 4) && !inClass && !shorthand {
		call = "res = kwm " + callArgs // no parentheses
		shape += ":no-parens"
	} else if r.Chance(1, 3) {
		multiline = true
		shape += ":multiline"
	}
	return &kwCase{Before: sb.String() + "x0 = 1\n", CallFmt: call, After: "dbtp res\nres.zork\n", Kwargs: kws, Shape: shape, Multiline: multiline}
}

func init() {
	register(&Check{ID: "C14", Title: "keyword argument order is irrelevant",
		Replay: func(c *CheckCtx, s *Slot, v *Violation) *Violation {
			var k kwCase
			if json.Unmarshal(v.Case, &k) != nil {
				return nil
			}
			return judgeKw(c, s.BlackBox(), &k)
		},
		Run: func(c *CheckCtx) {
			c.rule = "calls with 2-5 keyword arguments against generated user methods (top level, instance, class methods; required and defaulted keywords mixed with 0-2 positionals; all given / one missing / one unknown; one method in four also declares **opts, receives two or three further keywords of different classes and prints the hash, a lookup, its values, its keys and the block variables of each; with and without parentheses, one argument per line, shorthand keywords `name:` passing a local) and against the configured methods that declare keywords (Dir.glob base:, Test.keyword_json_test name:); every permutation of the keyword arguments for up to 4 keywords and a seeded sample of the 120 for 5 is compared with the written order; modes plain and -i. distinct_nontrivial = distinct (program, permutation, mode) with non-empty output"
			c.assumptions = []string{"pairs in which a run crashes or hangs are skipped (C01/C02)"}
			r := c.RNG.Sub(14)
			var jobs []*kwCase
			modes := [][]string{{}, {"-i"}}
			for n := 0; n < c.N(140, 3000); n++ {
				base := genKwCall(r)
				perms := permutations(len(base.Kwargs))
				if len(perms) > 24 {
					Shuffle(r, perms)
					perms = perms[:c.N(12, 60)]
				}
				mode := Pick(r, modes)
				for _, p := range perms {
					ident := true
					for i, x := range p {
						if x != i {
							ident = false
						}
					}
					if ident {
						continue
					}
					k := *base
					k.Perm = p
					k.Mode = mode
					jobs = append(jobs, &k)
				}
			}
			// configured methods with keywords
			for _, spec := range []struct{ before, call string; kws []string }{
				{"", "x = Dir.glob(\"*\", 1, %s)", []string{"base: \"d\"", "zzunknown: 1"}},
				{"", "x = Test.keyword_json_test(%s)", []string{"name: 1", "zzother: 2"}},
				{"", "x = Test.keyword_json_test2(%s)", []string{"name: \"s\"", "zzother: 2"}},
			} {
				for _, m := range modes {
					jobs = append(jobs, &kwCase{Before: spec.before, CallFmt: spec.call, After: "dbtp x\n", Kwargs: spec.kws, Perm: []int{1, 0}, Mode: m, Shape: "configured"})
				}
			}
			c.Extra("pairs", len(jobs))
			c.Eng.Map(len(jobs), func(s *Slot, i int) {
				k := jobs[i]
				if i%301 == 0 {
					id := make([]int, len(k.Kwargs))
					for q := range id {
						id[q] = q
					}
					c.Sample(map[string]any{"source": k.source(id), "perm": k.Perm, "mode": k.Mode, "shape": k.Shape})
				}
				if v := exploreThenJudge(c, s, func(rn Runner) *Violation { return judgeKw(c, rn, k) }); v != nil {
					c.Report(v)
				}
			})
		}})
}

// ---------------------------------------------------------------------------
// C18: preloaded files act like a prefix whose diagnostics are hidden

type preloadCase struct {
	Names  []string `json:"names,omitempty"` // preload file names (their order in .ti-loader.json is the order of Parts)
	Parts  []string `json:"parts"`           // P1..Pn, M (each newline terminated)
	Mode   []string `json:"mode"`
	Origin string   `json:"origin"`
	// Missing > 0: an entry naming no file stands at position Missing-1 of the
	// preload list. ti leaves such an entry out; a ti that refuses to run
	// (non-zero exit) is skipped, not judged.
	Missing int `json:"missing,omitempty"`
}

func judgePreload(c *CheckCtx, rn Runner, pc *preloadCase) *Violation {
	n := len(pc.Parts) - 1
	whole := strings.Join(pc.Parts, "")
	offset := strings.Count(strings.Join(pc.Parts[:n], ""), "\n")
	argv := append([]string{targetFile}, pc.Mode...)
	o1, ok1 := relRun(c, rn, &Exec{Files: map[string]string{targetFile: whole}, Argv: argv})
	files := map[string]string{targetFile: pc.Parts[n]}
	var preload []string
	for i := 0; i < n; i++ {
		name := fmt.Sprintf("pre%d.rb", i+1)
		if i < len(pc.Names) && pc.Names[i] != "" {
			name = pc.Names[i]
		}
		files[name] = pc.Parts[i]
		preload = append(preload, name)
	}
	if pc.Missing > 0 && pc.Missing <= len(preload)+1 {
		at := pc.Missing - 1
		preload = append(preload[:at], append([]string{"generated/no_such_file_zz.rb"}, preload[at:]...)...)
		c.Event("preload_lists_with_a_missing_entry", 1)
	}
	o2, ok2 := relRun(c, rn, &Exec{Files: files, Argv: argv, Preload: preload})
	if !ok1 || !ok2 {
		c.Event("skipped_crash_or_hang", 1)
		return nil
	}
	want := mapRows(parseOut(o1), func(r int) (int, bool) {
		if r <= offset {
			return 0, false
		}
		return r - offset, true
	})
	got := parseOut(o2)
	if len(want) > 0 {
		c.Event("splits_with_target_output", 1)
		c.Nontrivial(strings.Join(pc.Mode, " ") + "\x00" + strings.Join(pc.Parts, "\x01"))
	}
	// no line may name a preloaded file
	for _, l := range strings.Split(o2, "\n") {
		for _, p := range preload {
			if strings.Contains(l, p+":::") {
				return &Violation{Sig: "preload:names-preloaded-file:" + msgTemplate(l), Kind: "preload", Case: mustJSON(pc),
					What: "an output line refers to a preloaded file: " + l, Observed: clip(o2, 3000)}
			}
		}
	}
	if sameRecs(want, got) {
		// editor queries: hovering a row of the target must answer what hovering
		// the same row of the concatenation answers
		if len(pc.Mode) == 0 {
			tl := strings.Split(strings.TrimRight(pc.Parts[n], "\n"), "\n")
			hovered := 0
			for i, line := range tl {
				if hovered >= 2 || !strings.ContainsAny(line, ".(") || strings.HasPrefix(strings.TrimSpace(line), "def ") {
					continue
				}
				hovered++
				row := i + 1
				h1, okA := relRun(c, rn, &Exec{Files: map[string]string{targetFile: whole}, Argv: []string{targetFile, "--hover", fmt.Sprintf("--row=%d", row+offset)}})
				h2, okB := relRun(c, rn, &Exec{Files: files, Argv: []string{targetFile, "--hover", fmt.Sprintf("--row=%d", row)}, Preload: preload})
				if !okA || !okB {
					continue
				}
				c.Event("hover_rows_compared", 1)
				first := func(out string) string {
					for _, l := range strings.Split(out, "\n") {
						if strings.HasPrefix(l, "%") {
							return l
						}
					}
					return ""
				}
				if first(h1) != first(h2) {
					return &Violation{Sig: "preload:--hover:" + msgTemplate(first(h1)) + "=>" + msgTemplate(first(h2)), Kind: "preload", Case: mustJSON(pc),
						What:     fmt.Sprintf("--hover --row=%d of the target with %d preloaded file(s) answers %q, the same row of the concatenation (--row=%d) answers %q", row, n, first(h2), row+offset, first(h1)),
						Expected: clip(h1, 1500), Observed: clip(h2, 1500)}
				}
			}
		}
		return nil
	}
	return &Violation{Sig: "preload:" + strings.Join(pc.Mode, "") + ":" + diffTemplate(want, got), Kind: "preload", Case: mustJSON(pc),
		What:     fmt.Sprintf("target output with %d preloaded file(s) differs from the concatenation restricted to the target's rows (argv %v, %s program)", n, pc.Mode, pc.Origin),
		Expected: clip(fmtRecs(want), 3000), Observed: clip(fmtRecs(got), 3000)}
}

func genPreloadTemplate(r *RNG) *preloadCase {
	lit := func() string { return Pick(r, []string{"1", "\"s\"", "1.5", ":k", "[1]"}) }
	var p1, p2, m strings.Builder
	p1.WriteString("class Acct\n")
	attrs := []string{"note", "tag", "level"}
	for _, a := range attrs {
		if r.Bool() {
			fmt.Fprintf(&p1, "  %s :%s\n", Pick(r, []string{"attr_reader", "attr_accessor"}), a)
		}
	}
	if r.Bool() {
		fmt.Fprintf(&p1, "  def initialize\n    @tag = %s\n  end\n", lit())
	}
	fmt.Fprintf(&p1, "  def fee(rate)\n    rate\n  end\n  def area\n    %s\n  end\nend\n", lit())
	fmt.Fprintf(&p1, "def helper(x)\n  x\nend\nunit = %s\n", lit())
	// the second preload file reopens the class / redefines things: order matters
	fmt.Fprintf(&p2, "class Acct\n  def area\n    %s\n  end\n  def extra(y = 1)\n    y\n  end\nend\nunit = %s\ndef helper2(z)\n  z\nend\n", lit(), lit())
	uses := []string{"a = Acct.new", "dbtp a.note", "dbtp a.tag", "dbtp a.fee", "dbtp a.fee(2)", "dbtp a.area", "dbtp a.extra", "dbtp helper", "dbtp helper(1)", "dbtp helper2(\"s\")", "dbtp unit", "unit + 1", "a.level = 3", "dbtp a.level"}
	m.WriteString(uses[0] + "\n")
	for _, u := range uses[1:] {
		if r.Chance(2, 3) {
			m.WriteString(u + "\n")
		}
	}
	parts := []string{p1.String(), p2.String(), m.String()}
	names := []string{"shape.rb", "circle.rb"}
	if r.Bool() {
		parts[0], parts[1] = parts[1], parts[0]
	}
	if r.Bool() {
		names = []string{"aaa.rb", "zzz.rb"}
	}
	return &preloadCase{Parts: parts, Names: names, Mode: Pick(r, [][]string{{}, {"-i"}}), Origin: "template"}
}

// topLevelSplits returns line indexes (0-based, start of a top-level
// statement) where a program can be cut.
func topLevelSplits(src string) []int {
	var out []int
	lines := strings.Split(src, "\n")
	depth := keywordDepths(lines)
	if depth == nil {
		return nil
	}
	for _, b := range safeBoundaries(src) {
		l := lines[b-1]
		if len(l) > 0 && l[0] != ' ' && l[0] != '\t' && l[0] != '#' && !closerRe.MatchString(l) && depth[b-1] == 0 {
			out = append(out, b-1)
		}
	}
	return out
}

var openerLineRe = regexp.MustCompile(`^\s*(class|module|def|if|unless|while|until|case|begin|for)\b`)
var inlineOpenerRe = regexp.MustCompile(`(=|\(|,|return)\s*(if|unless|case|begin|while)\b`)
var doOpenerRe = regexp.MustCompile(`\bdo\s*(\|[^|]*\|)?\s*(#.*)?$`)
var endlessDefRe = regexp.MustCompile(`^\s*def\s+[^=]*\)?\s*=\s*\S`)
var endWordRe = regexp.MustCompile(`\bend\b`)

// keywordDepths returns the keyword nesting depth in front of every line
// (nil when the scan loses track, e.g. negative depth).
func keywordDepths(lines []string) []int {
	out := make([]int, len(lines))
	d := 0
	for i, l := range lines {
		out[i] = d
		code := l
		if k := strings.Index(code, "#"); k >= 0 && !strings.ContainsAny(code[:k], "\"'") {
			code = code[:k]
		}
		if strings.TrimSpace(code) == "" {
			continue
		}
		opens := 0
		if openerLineRe.MatchString(code) && !endlessDefRe.MatchString(code) {
			opens++
		} else if inlineOpenerRe.MatchString(code) {
			opens++
		}
		if doOpenerRe.MatchString(code) {
			opens++
		}
		closes := 0
		stripped := regexp.MustCompile(`"[^"]*"|'[^']*'|:end\b|\.end\b`).ReplaceAllString(code, "")
		closes = len(endWordRe.FindAllString(stripped, -1))
		d += opens - closes
		if d < 0 {
			return nil
		}
	}
	if d != 0 {
		return nil
	}
	return out
}

func init() {
	register(&Check{ID: "C18", Title: "preloads behave like a hidden prefix",
		Replay: func(c *CheckCtx, s *Slot, v *Violation) *Violation {
			var pc preloadCase
			if json.Unmarshal(v.Case, &pc) != nil {
				return nil
			}
			return judgePreload(c, s.BlackBox(), &pc)
		},
		Run: func(c *CheckCtx) {
			c.rule = "programs (corpus and generated) split at top-level statement boundaries into 1-3 preload files plus a target; `.ti-loader.json` lists the preload files in order (one list in six has a preloaded file with the target's own base name in another directory; one list in eight also names a file that does not exist, before, between or after them: a ti that still runs must behave as if the entry were not there); oracle: out(target | preloads) == out(concatenation) restricted to the target's rows and rebased, and no output line names a preloaded file; modes plain and -i; in plain mode up to two call rows of the target are also hovered (--hover --row) in both arrangements and must name the same method. distinct_nontrivial = distinct (split, mode) whose target rows carry output"
			c.assumptions = []string{"splits in which a run crashes or hangs are skipped (C01/C02)"}
			c.bbEvery = 5 // preloading lives in main(): one case in five runs in a real process
			r := c.RNG.Sub(18)
			items := Corpus()
			var jobs []*preloadCase
			modes := [][]string{{}, {"-i"}}
			add := func(src, origin string, cuts []int) {
				if len(cuts) == 0 {
					return
				}
				lines := strings.SplitAfter(src, "\n")
				per := c.N(2, 6)
				for q := 0; q < per; q++ {
					np := 1 + r.Intn(3)
					chosen := map[int]bool{}
					for k := 0; k < np; k++ {
						chosen[Pick(r, cuts)] = true
					}
					var idx []int
					for _, cu := range cuts {
						if chosen[cu] {
							idx = append(idx, cu)
						}
					}
					var parts []string
					prev := 0
					for _, cu := range idx {
						if cu <= prev {
							continue
						}
						parts = append(parts, strings.Join(lines[prev:cu], ""))
						prev = cu
					}
					parts = append(parts, strings.Join(lines[prev:], ""))
					if len(parts) < 2 {
						continue
					}
					names := []string{"zeta_first.rb", "mid_second.rb", "alpha_third.rb", "beta_fourth.rb"}
					if r.Bool() {
						Shuffle(r, names)
					}
					jobs = append(jobs, &preloadCase{Parts: parts, Names: names[:len(parts)-1], Mode: Pick(r, modes), Origin: origin})
				}
			}
			for k := 0; k < c.N(120, len(items)); k++ {
				it := items[k%len(items)]
				if c.Quick() {
					it = Pick(r, items)
				}
				if len(it.Args) > 0 && it.Args[0] != "-i" {
					continue
				}
				src := it.Source
				if !strings.HasSuffix(src, "\n") {
					src += "\n"
				}
				add(src, "corpus", topLevelSplits(src))
			}
			for k := 0; k < c.N(150, 3000); k++ {
				p := genProgram(r, GenOpts{Classes: true, Stmts: 5 + r.Intn(10)})
				rd := p.Render(nil)
				var cuts []int
				for i, l := range rd.Lines {
					if l.StartsAt != "" && l.Depth == 0 && i > 0 {
						cuts = append(cuts, i)
					}
				}
				add(rd.Text(), "generated", cuts)
			}
			// definitions in the preload files, uses in the target: attributes that are
			// never assigned, parameters never bound by a call, redefinitions across
			// preload files (their order matters)
			for k := 0; k < c.N(120, 2500); k++ {
				jobs = append(jobs, genPreloadTemplate(r))
			}
			// one list in six has a preloaded file with the target's own base name
			// in another directory (lib/main.rb next to main.rb)
			for _, pc := range jobs {
				if len(pc.Parts) >= 2 && r.Chance(1, 6) {
					names := make([]string, len(pc.Parts)-1)
					copy(names, pc.Names)
					for i := range names {
						if names[i] == "" {
							names[i] = fmt.Sprintf("pre%d.rb", i+1)
						}
					}
					names[r.Intn(len(names))] = Pick(r, []string{"lib/", "vendor/deep/"}) + targetFile
					pc.Names = names
				}
			}
			// one list in eight also names a file that does not exist
			for _, pc := range jobs {
				if r.Chance(1, 8) {
					pc.Missing = 1 + r.Intn(len(pc.Parts))
				}
			}
			c.Extra("splits", len(jobs))
			c.Eng.Map(len(jobs), func(s *Slot, i int) {
				pc := jobs[i]
				if i%301 == 0 {
					c.Sample(map[string]any{"parts": len(pc.Parts), "mode": pc.Mode, "origin": pc.Origin, "target": clip(pc.Parts[len(pc.Parts)-1], 300)})
				}
				if v := exploreThenJudge(c, s, func(rn Runner) *Violation { return judgePreload(c, rn, pc) }); v != nil {
					c.Report(v)
				}
			})
		}})
}
