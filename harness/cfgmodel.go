package main

import (
	"encoding/json"
	"fmt"
	"sort"
	"strings"
)

// ---------------------------------------------------------------------------
// Configuration model: the documented meaning of .ti-config JSON
// (docs/ti-config.md and the statements of C07-C09, C21). It is deliberately
// partial: anything the documentation does not define is marked grey and the
// oracles make no claim about it.

type CfgArgJSON struct {
	Type       json.RawMessage `json:"type,omitempty"`
	Key        string          `json:"key,omitempty"`
	IsAsterisk bool            `json:"is_asterisk,omitempty"`
	IsDefault  bool            `json:"is_default,omitempty"`
}

type CfgRetJSON struct {
	Type           json.RawMessage `json:"type,omitempty"`
	IsConditional  bool            `json:"is_conditional,omitempty"`
	IsDestructive  bool            `json:"is_destructive,omitempty"`
	IsCaptureOwner bool            `json:"is_capture_owner,omitempty"`
}

type CfgMethodJSON struct {
	Name            string       `json:"name"`
	BlockParameters []string     `json:"block_parameters,omitempty"`
	Arguments       []CfgArgJSON `json:"arguments,omitempty"`
	ReturnType      CfgRetJSON   `json:"return_type"`
	Document        string       `json:"document,omitempty"`
}

type CfgConstJSON struct {
	Name       string     `json:"name"`
	ReturnType CfgRetJSON `json:"return_type"`
}

type CfgClassJSON struct {
	Frame           string          `json:"frame"`
	Class           string          `json:"class"`
	Extends         []string        `json:"extends,omitempty"`
	InstanceMethods []CfgMethodJSON `json:"instance_methods,omitempty"`
	ClassMethods    []CfgMethodJSON `json:"class_methods,omitempty"`
	Constants       []CfgConstJSON  `json:"constants,omitempty"`
}

func typeList(raw json.RawMessage) []string {
	if len(raw) == 0 {
		return nil
	}
	var one string
	if json.Unmarshal(raw, &one) == nil {
		return []string{one}
	}
	var many []string
	if json.Unmarshal(raw, &many) == nil {
		return many
	}
	return nil
}

// TypeSet is the model's view of a declared type.
type TypeSet struct {
	Atoms   []string // accepted / produced classes (sorted); "Array" and "Hash" included as atoms
	Untyped bool     // accepts anything / produces an unknown class
	Special string   // Self, Unify, OptionalUnify, Argument, SelfArray, KeyArray, KeyValueArray, UnifyArgument, BlockResultArray, Flatten, Item, Owner, Block
	Elem    *TypeSet // for "[T]" and XArray names
	Grey    bool     // a name the documentation does not define
	Default bool     // Default* / ?T argument / is_default
	Rest    bool     // *T / is_asterisk
}

var documentedScalar = map[string][]string{
	"NilClass": {"NilClass"}, "Symbol": {"Symbol"}, "Bool": {"Bool"}, "Range": {"Range"}, "String": {"String"}, "Int": {"Integer"}, "Integer": {"Integer"},
	"Float": {"Float"}, "Number": {"Float", "Integer"}, "Hash": {"Hash"}, "OptionalString": {"NilClass", "String"}, "OptionalInt": {"Integer", "NilClass"}, "OptionalFloat": {"Float", "NilClass"},
}

var documentedDefault = map[string]string{"DefaultString": "String", "DefaultInt": "Int", "DefaultFloat": "Float", "DefaultBool": "Bool", "DefaultUntyped": "Untyped", "DefaultBlock": "Block"}

var documentedSpecial = map[string]bool{"Self": true, "Unify": true, "OptionalUnify": true, "BlockResultArray": true, "SelfArray": true, "Argument": true, "UnifyArgument": true, "KeyArray": true, "KeyValueArray": true, "Block": true}

func parseTypeName(name string, classes map[string]bool) TypeSet {
	name = strings.TrimSpace(name)
	switch {
	case name == "":
		return TypeSet{Grey: true}
	case strings.HasPrefix(name, "?") && len(name) > 1:
		inner := parseTypeName(name[1:], classes)
		if inner.Grey || inner.Special != "" || inner.Untyped {
			return TypeSet{Grey: true}
		}
		inner.Atoms = sortedUnion(inner.Atoms, []string{"NilClass"})
		return inner
	case strings.HasPrefix(name, "*") && len(name) > 1:
		inner := parseTypeName(name[1:], classes)
		inner.Rest = true
		return inner
	case strings.HasPrefix(name, "[") && strings.HasSuffix(name, "]") && len(name) > 2:
		inner := parseTypeName(name[1:len(name)-1], classes)
		return TypeSet{Atoms: []string{"Array"}, Elem: &inner, Grey: inner.Grey}
	case strings.Contains(name, "|"):
		var ts TypeSet
		for _, part := range strings.Split(name, "|") {
			p := parseTypeName(part, classes)
			if p.Grey || p.Special != "" || p.Elem != nil {
				return TypeSet{Grey: true}
			}
			if p.Untyped {
				ts.Untyped = true
			}
			ts.Atoms = sortedUnion(ts.Atoms, p.Atoms)
		}
		return ts
	}
	if a, ok := documentedScalar[name]; ok {
		return TypeSet{Atoms: append([]string{}, a...)}
	}
	if base, ok := documentedDefault[name]; ok {
		t := parseTypeName(base, classes)
		t.Default = true
		return t
	}
	switch name {
	case "Untyped":
		return TypeSet{Untyped: true}
	case "Array":
		return TypeSet{Atoms: []string{"Array"}}
	case "StringArray":
		return TypeSet{Atoms: []string{"Array"}, Elem: &TypeSet{Atoms: []string{"String"}}}
	case "IntArray":
		return TypeSet{Atoms: []string{"Array"}, Elem: &TypeSet{Atoms: []string{"Integer"}}}
	case "FloatArray":
		return TypeSet{Atoms: []string{"Array"}, Elem: &TypeSet{Atoms: []string{"Float"}}}
	}
	if documentedSpecial[name] {
		return TypeSet{Special: name}
	}
	if classes[name] && !strings.Contains(name, "::") {
		return TypeSet{Atoms: []string{name}}
	}
	return TypeSet{Grey: true}
}

func sortedUnion(a, b []string) []string {
	m := map[string]bool{}
	for _, x := range a {
		m[x] = true
	}
	for _, x := range b {
		m[x] = true
	}
	out := make([]string, 0, len(m))
	for x := range m {
		out = append(out, x)
	}
	sort.Strings(out)
	return out
}

func parseTypeSpec(raw json.RawMessage, classes map[string]bool) TypeSet {
	names := typeList(raw)
	switch len(names) {
	case 0:
		return TypeSet{Atoms: []string{"NilClass"}}
	case 1:
		return parseTypeName(names[0], classes)
	}
	var ts TypeSet
	for _, n := range names {
		p := parseTypeName(n, classes)
		if p.Grey || p.Special != "" || p.Elem != nil || p.Rest {
			return TypeSet{Grey: true}
		}
		if p.Default {
			// a Default* name inside a list: the documentation does not say what a mixed list means
			return TypeSet{Grey: true}
		}
		if p.Untyped {
			ts.Untyped = true
		}
		ts.Atoms = sortedUnion(ts.Atoms, p.Atoms)
	}
	return ts
}

type ModelParam struct {
	Type    TypeSet
	Key     string // keyword name without colon, "" for positional
	Default bool
	Rest    bool
}

type ModelMethod struct {
	Class       *ModelClass
	Name        string
	Static      bool
	Params      []ModelParam
	Ret         TypeSet
	Conditional bool
	Destructive bool
	BlockParams []TypeSet
	Raw         CfgMethodJSON
}

// Arity of the positional parameters: required count and maximum (-1 = rest).
func (m *ModelMethod) Arity() (req, max int) {
	for _, p := range m.Params {
		if p.Key != "" {
			continue
		}
		switch {
		case p.Rest:
			max = -1
		case p.Default:
			if max >= 0 {
				max++
			}
		default:
			req++
			if max >= 0 {
				max++
			}
		}
	}
	return
}

type ModelClass struct {
	Frame, Name string
	Extends     []string
	Instance    map[string][]*ModelMethod
	Static      map[string][]*ModelMethod
	Consts      map[string]TypeSet
}

type CfgModel struct {
	Classes map[string]*ModelClass // key frame + "::" + name ("Builtin::Array")
	Order   []string
	Names   map[string]bool // short names of classes in frame Builtin
}

// BuildModel reads a configuration (file name -> JSON text). Files are
// merged by (frame, class): declarations of one class split over files
// accumulate, later methods of the same name are overloads.
func BuildModel(cfg *Config) (*CfgModel, error) {
	names := make([]string, 0, len(cfg.Files))
	for n := range cfg.Files {
		names = append(names, n)
	}
	sort.Strings(names)
	var defs []CfgClassJSON
	classes := map[string]bool{}
	for _, n := range names {
		if strings.TrimSpace(cfg.Files[n]) == "" {
			continue
		}
		var d CfgClassJSON
		if err := json.Unmarshal([]byte(cfg.Files[n]), &d); err != nil {
			return nil, fmt.Errorf("%s: %v", n, err)
		}
		defs = append(defs, d)
		if d.Frame == "Builtin" {
			classes[d.Class] = true
		}
	}
	m := &CfgModel{Classes: map[string]*ModelClass{}, Names: classes}
	for _, d := range defs {
		key := d.Frame + "::" + d.Class
		mc, ok := m.Classes[key]
		if !ok {
			mc = &ModelClass{Frame: d.Frame, Name: d.Class, Instance: map[string][]*ModelMethod{}, Static: map[string][]*ModelMethod{}, Consts: map[string]TypeSet{}}
			m.Classes[key] = mc
			m.Order = append(m.Order, key)
		}
		for _, e := range d.Extends {
			if !contains(mc.Extends, e) {
				mc.Extends = append(mc.Extends, e)
			}
		}
		add := func(list []CfgMethodJSON, static bool) {
			for _, jm := range list {
				mm := &ModelMethod{Class: mc, Name: jm.Name, Static: static, Raw: jm, Conditional: jm.ReturnType.IsConditional, Destructive: jm.ReturnType.IsDestructive}
				for _, a := range jm.Arguments {
					ts := parseTypeSpec(a.Type, classes)
					if len(typeList(a.Type)) == 0 {
						ts = TypeSet{Grey: true}
					}
					p := ModelParam{Type: ts, Key: strings.TrimSuffix(a.Key, ":"), Default: ts.Default || a.IsDefault, Rest: ts.Rest || a.IsAsterisk}
					// "?T" as an argument means default, not nilable
					if tl := typeList(a.Type); len(tl) == 1 && strings.HasPrefix(tl[0], "?") && !strings.ContainsAny(tl[0], "|[") {
						inner := parseTypeName(tl[0][1:], classes)
						p.Type = inner
						p.Default = true
					}
					mm.Params = append(mm.Params, p)
				}
				mm.Ret = parseTypeSpec(jm.ReturnType.Type, classes)
				for _, bp := range jm.BlockParameters {
					mm.BlockParams = append(mm.BlockParams, parseTypeName(bp, classes))
				}
				if static {
					mc.Static[jm.Name] = append(mc.Static[jm.Name], mm)
				} else {
					mc.Instance[jm.Name] = append(mc.Instance[jm.Name], mm)
				}
			}
		}
		add(d.InstanceMethods, false)
		add(d.ClassMethods, true)
		for _, cst := range d.Constants {
			mc.Consts[cst.Name] = parseTypeSpec(cst.ReturnType.Type, classes)
		}
	}
	return m, nil
}

// Lookup returns the declarations of an instance method for a receiver of
// class name (frame Builtin): own declarations, then the extends chain, then
// Object (class "") and Kernel.
func (m *CfgModel) Lookup(class, method string, static bool) []*ModelMethod {
	seen := map[string]bool{}
	var walk func(key string) []*ModelMethod
	walk = func(key string) []*ModelMethod {
		if seen[key] {
			return nil
		}
		seen[key] = true
		mc := m.Classes[key]
		if mc == nil {
			return nil
		}
		tab := mc.Instance
		if static {
			tab = mc.Static
		}
		if ms := tab[method]; len(ms) > 0 {
			return ms
		}
		for _, e := range mc.Extends {
			pk := mc.Frame + "::" + e
			if strings.Contains(e, "::") {
				pk = e
			}
			if r := walk(pk); r != nil {
				return r
			}
		}
		return nil
	}
	if r := walk("Builtin::" + class); r != nil {
		return r
	}
	if static {
		return nil
	}
	if r := walk("Builtin::"); r != nil {
		return r
	}
	return walk("Builtin::Kernel")
}
