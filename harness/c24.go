package main

import (
	"encoding/json"
	"fmt"
	"regexp"
	"sort"
	"strings"
)

// ---------------------------------------------------------------------------
// C24: the LLM navigator's call graph matches the source.
//
// Generated programs with known call sites of every user method: calls with
// an explicit receiver and with the implicit one, at top level, in methods of
// the same and of other classes, in if/elsif/unless conditions, in arguments
// of other calls, in blocks and in while loops; inherited methods called on
// subclass instances. For every method `--llm-nav --target=<name>` must list
// exactly one caller entry per call site (row, enclosing method and class),
// `total callers` must equal their number, and every listed callee must be a
// call written in the method's body.

type nSite struct {
	File   string `json:"file"` // main.rb, or lib.rb when the definitions are preloaded
	Row    int    `json:"row"`
	Method string `json:"method"` // enclosing method ("" = top level)
	Class  string `json:"class"`  // enclosing class ("" = none)
	Form   string `json:"form"`
}

type nMethod struct {
	Class   string   `json:"class"` // defining class ("" = top level)
	Name    string   `json:"name"`
	Sites   []nSite  `json:"sites"`
	Callees []string `json:"callees"` // names of user methods called in its body
}

type nCase struct {
	Source  string    `json:"source"`
	Methods []nMethod `json:"methods"`
	// Split > 0: rows 1..Split are preloaded as lib.rb, the rest is main.rb
	Split int `json:"split"`
}

func (nc *nCase) exec(argv ...string) *Exec {
	if nc.Split == 0 {
		return &Exec{Files: map[string]string{targetFile: nc.Source}, Argv: append([]string{targetFile}, argv...)}
	}
	lines := strings.SplitAfter(nc.Source, "\n")
	return &Exec{Files: map[string]string{"lib.rb": strings.Join(lines[:nc.Split], ""), targetFile: strings.Join(lines[nc.Split:], "")},
		Argv: append([]string{targetFile}, argv...), Preload: []string{"lib.rb"}}
}

func genNav(r *RNG) *nCase {
	nc := &nCase{}
	var lines []string
	emit := func(s string) { lines = append(lines, s) }
	row := func() int { return len(lines) + 1 }
	// leaf methods (called by others): in class Calc (and its subclass), in class Tool, at top level
	type leaf struct {
		class, name string
		idx         int
	}
	var leaves []leaf
	addMethod := func(class, name string) int {
		nc.Methods = append(nc.Methods, nMethod{Class: class, Name: name})
		return len(nc.Methods) - 1
	}
	site := func(mi int, encMethod, encClass, form string) {
		nc.Methods[mi].Sites = append(nc.Methods[mi].Sites, nSite{Row: row(), Method: encMethod, Class: encClass, Form: form})
	}
	hasJob, jobLeaf := false, -1
	emit("flag = true")
	// top-level leaf
	nTop := r.Intn(2)
	for k := 0; k < nTop; k++ {
		name := fmt.Sprintf("tleaf%d", k)
		emit("def " + name + "(a = 1)")
		emit("  a")
		emit("end")
		leaves = append(leaves, leaf{"", name, addMethod("", name)})
	}
	// class Calc with leaves and callers
	emit("class Calc")
	nLeaf := 1 + r.Intn(2)
	var calcLeaves []leaf
	for k := 0; k < nLeaf; k++ {
		name := fmt.Sprintf("leaf%d", k)
		emit("  def " + name + "(a = 1)")
		emit("    a")
		emit("  end")
		l := leaf{"Calc", name, addMethod("Calc", name)}
		leaves = append(leaves, l)
		calcLeaves = append(calcLeaves, l)
	}
	// a class method, called from class methods of Calc and of its subclass
	hasStatic := r.Bool()
	sbuild := -1
	if hasStatic {
		sbuild = addMethod("Calc", "sbuild")
		emit("  def self.sbuild(a = 1)")
		emit("    a")
		emit("  end")
		if r.Bool() {
			fi := addMethod("Calc", "factory")
			emit("  def self.factory(a = 1)")
			site(sbuild, "factory", "Calc", "class-method-implicit")
			nc.Methods[fi].Callees = append(nc.Methods[fi].Callees, "sbuild")
			emit("    sbuild(a)")
			emit("  end")
			leaves = append(leaves, leaf{"Calc.", "factory", fi})
		}
	}
	// caller methods inside Calc: implicit-receiver calls in various positions
	nCallers := 1 + r.Intn(3)
	for k := 0; k < nCallers; k++ {
		cname := fmt.Sprintf("caller%d", k)
		ci := addMethod("Calc", cname)
		emit("  def " + cname + "(c = 1)")
		nst := 1 + r.Intn(4)
		for q := 0; q < nst; q++ {
			l := Pick(r, calcLeaves)
			callee := l.name
			if !contains(nc.Methods[ci].Callees, callee) {
				nc.Methods[ci].Callees = append(nc.Methods[ci].Callees, callee)
			}
			switch r.Intn(12) {
			case 8:
				// the call on the right of `==`, whose left side is a plain name
				site(l.idx, cname, "Calc", "if-condition-call-right-of-==")
				emit("    if c == " + callee + "(1)")
				emit("      c")
				emit("    end")
			case 9:
				site(l.idx, cname, "Calc", "modifier-if-condition")
				emit("    v = 1 if c == " + callee + "(2)")
			case 10:
				// two calls of one method on one row: an argument of itself
				site(l.idx, cname, "Calc", "two-on-a-row-nested")
				site(l.idx, cname, "Calc", "two-on-a-row-nested")
				emit("    " + callee + "(" + callee + "(2))")
			case 11:
				site(l.idx, cname, "Calc", "two-on-a-row-operands")
				site(l.idx, cname, "Calc", "two-on-a-row-operands")
				emit("    w = " + callee + "(3) + " + callee + "(4)")
			case 0:
				site(l.idx, cname, "Calc", "statement")
				emit("    " + callee + "(c)")
			case 1:
				site(l.idx, cname, "Calc", "if-condition")
				emit("    if " + callee + "(c) == 1")
				emit("      c")
				emit("    end")
			case 2:
				l2 := Pick(r, calcLeaves)
				if !contains(nc.Methods[ci].Callees, l2.name) {
					nc.Methods[ci].Callees = append(nc.Methods[ci].Callees, l2.name)
				}
				site(l.idx, cname, "Calc", "if-condition")
				emit("    if " + callee + "(c) == 1")
				emit("      c")
				site(l2.idx, cname, "Calc", "elsif-condition")
				emit("    elsif " + l2.name + "(c) == 2")
				emit("      c")
				emit("    end")
			case 3:
				site(l.idx, cname, "Calc", "unless-condition")
				emit("    unless " + callee + "(c)")
				emit("      c")
				emit("    end")
			case 4:
				emit("    while flag")
				site(l.idx, cname, "Calc", "while-body")
				emit("      " + callee + "(1)")
				emit("    end")
			case 5:
				emit("    [1].each do |q|")
				site(l.idx, cname, "Calc", "block")
				emit("      " + callee + "(q)")
				emit("    end")
			case 6:
				site(l.idx, cname, "Calc", "assignment")
				emit("    v = " + callee + "(c)")
			default:
				site(l.idx, cname, "Calc", "self-receiver")
				emit("    self." + callee + "(c)")
			}
		}
		emit("    c")
		emit("  end")
		leaves = append(leaves, leaf{"Calc", cname, ci})
	}
	if r.Bool() {
		// an endless method without parentheses whose body is a call
		l := Pick(r, calcLeaves)
		ei := addMethod("Calc", "ten")
		site(l.idx, "ten", "Calc", "endless-method-body")
		nc.Methods[ei].Callees = append(nc.Methods[ei].Callees, l.name)
		emit("  def ten = " + l.name + "(10)")
		leaves = append(leaves, leaf{"Calc", "ten", ei})
	}
	emit("end")
	if r.Bool() {
		// a subclass in another namespace: the inherited method is Calc's
		emit("module App")
		emit("  class Job < Calc")
		ji := addMethod("Job", "work")
		emit("    def work(a = 1)")
		l := Pick(r, calcLeaves)
		site(l.idx, "work", "Job", "inherited-implicit-cross-namespace")
		nc.Methods[ji].Callees = append(nc.Methods[ji].Callees, l.name)
		emit("      " + l.name + "(a)")
		emit("    end")
		emit("  end")
		emit("end")
		hasJob = true
		jobLeaf = l.idx
	}
	// a subclass: inherited methods called on its instances are calls of Calc's methods
	hasSub := r.Bool()
	if hasSub {
		emit("class SubCalc < Calc")
		si := addMethod("SubCalc", "own")
		emit("  def own(a = 1)")
		l := Pick(r, calcLeaves)
		site(l.idx, "own", "SubCalc", "inherited-implicit")
		nc.Methods[si].Callees = append(nc.Methods[si].Callees, l.name)
		emit("    " + l.name + "(a)")
		emit("  end")
		if hasStatic {
			mi := addMethod("SubCalc", "make")
			emit("  def self.make(a = 1)")
			nc.Methods[mi].Callees = append(nc.Methods[mi].Callees, "sbuild")
			if r.Bool() {
				site(sbuild, "make", "SubCalc", "inherited-class-method-self")
				emit("    self.sbuild(1)")
			}
			site(sbuild, "make", "SubCalc", "inherited-class-method-implicit")
			emit("    sbuild(2)")
			emit("  end")
			leaves = append(leaves, leaf{"SubCalc.", "make", mi})
		}
		emit("end")
		leaves = append(leaves, leaf{"SubCalc", "own", si})
	}
	// another class calling Calc's methods with an explicit receiver
	emit("class Tool")
	ti := addMethod("Tool", "use")
	emit("  def use(calc)")
	for q := 0; q <= r.Intn(2); q++ {
		l := Pick(r, calcLeaves)
		site(l.idx, "use", "Tool", "explicit-in-other-class")
		if !contains(nc.Methods[ti].Callees, l.name) {
			nc.Methods[ti].Callees = append(nc.Methods[ti].Callees, l.name)
		}
		emit("    calc." + l.name + "(1)")
	}
	emit("    1")
	emit("  end")
	emit("end")
	// everything above may be preloaded
	libRows := len(lines)
	// top-level caller method
	tc := addMethod("", "topcaller")
	emit("def topcaller(k)")
	for _, l := range leaves {
		if l.class == "" && l.name != "topcaller" && r.Bool() {
			site(l.idx, "topcaller", "", "top-level-method-body")
			nc.Methods[tc].Callees = append(nc.Methods[tc].Callees, l.name)
			emit("  " + l.name + "(k)")
		}
	}
	emit("  k")
	emit("end")
	// top-level statements
	emit("calc = Calc.new")
	if hasSub {
		emit("sub = SubCalc.new")
	}
	if hasJob {
		emit("job = App::Job.new")
		site(jobLeaf, "", "", "top-level-inherited-cross-namespace")
		emit("job." + nc.Methods[jobLeaf].Name + "(3)")
	}
	emit("tool = Tool.new")
	site(ti, "", "", "top-level")
	emit("tool.use(calc)")
	site(tc, "", "", "top-level")
	emit("topcaller(1)")
	for _, l := range leaves {
		n := r.Intn(3)
		for q := 0; q < n; q++ {
			switch {
			case l.class == "Calc":
				recv := "calc"
				form := "top-level"
				if hasSub && r.Bool() {
					recv, form = "sub", "top-level-on-subclass-instance"
				}
				site(l.idx, "", "", form)
				switch r.Intn(3) {
				case 0:
					emit(recv + "." + l.name + "(2)")
				case 1:
					emit("w = " + recv + "." + l.name)
				default:
					emit("if " + recv + "." + l.name + "(2) == 2")
					emit("  w = 1")
					emit("end")
				}
			case l.class == "Calc." || l.class == "SubCalc.":
				site(l.idx, "", "", "top-level-class-method")
				emit(strings.TrimSuffix(l.class, ".") + "." + l.name + "(2)")
			case l.class == "SubCalc":
				site(l.idx, "", "", "top-level")
				emit("sub." + l.name + "(2)")
			case l.class == "":
				site(l.idx, "", "", "top-level")
				if r.Bool() {
					emit(l.name + "(3)")
				} else {
					emit("z = " + l.name + "(3)")
				}
			}
		}
	}
	if hasStatic {
		for q := r.Intn(3); q > 0; q-- {
			if hasSub && r.Bool() {
				site(sbuild, "", "", "top-level-inherited-class-method")
				emit("SubCalc.sbuild(4)")
			} else {
				site(sbuild, "", "", "top-level-class-method")
				emit("Calc.sbuild(5)")
			}
		}
	}
	nc.Source = strings.Join(lines, "\n") + "\n"
	// one program in three: the class definitions are a preloaded file
	if r.Chance(1, 3) {
		nc.Split = libRows
	}
	for mi := range nc.Methods {
		for si := range nc.Methods[mi].Sites {
			st := &nc.Methods[mi].Sites[si]
			st.File = targetFile
			if nc.Split > 0 {
				if st.Row <= nc.Split {
					st.File = "lib.rb"
				} else {
					st.Row -= nc.Split
				}
				st.Form += "+preloaded-definitions"
			}
		}
	}
	return nc
}

var navPointRe = regexp.MustCompile(`^    - call point: (.*):(\d+)$`)

type navEntry struct {
	method, class, file string
	row                 int
}

func parseNav(out string) (header string, callers []navEntry, total int, callees []string, ok bool) {
	lines := strings.Split(out, "\n")
	section := ""
	var cur navEntry
	total = -1
	for _, l := range lines {
		switch {
		case strings.HasPrefix(l, "## "):
			if header != "" {
				return header, callers, total, callees, false // more than one method printed
			}
			header = strings.TrimPrefix(l, "## ")
		case strings.HasPrefix(l, "- callers:"):
			section = "callers"
		case strings.HasPrefix(l, "- callees:"):
			section = "callees"
		case strings.HasPrefix(l, "  - method: "):
			name := strings.TrimPrefix(l, "  - method: ")
			if section == "callers" {
				cur = navEntry{method: name}
			} else if section == "callees" {
				callees = append(callees, name)
			}
		case strings.HasPrefix(l, "    - class: ") && section == "callers":
			cur.class = strings.TrimPrefix(l, "    - class: ")
		case navPointRe.MatchString(l) && section == "callers":
			m := navPointRe.FindStringSubmatch(l)
			fmt.Sscanf(m[2], "%d", &cur.row)
			cur.file = m[1]
			callers = append(callers, cur)
		case strings.HasPrefix(l, "  - total callers: "):
			fmt.Sscanf(strings.TrimPrefix(l, "  - total callers: "), "%d", &total)
		}
	}
	return header, callers, total, callees, header != ""
}

func judgeNav(c *CheckCtx, rn Runner, nc *nCase) *Violation {
	mk := func(sig, what, out string) *Violation {
		return &Violation{Sig: sig, Kind: "nav", Case: mustJSON(nc), What: what, Observed: clip(out, 2500)}
	}
	c.Nontrivial(nc.Source)
	for _, m := range nc.Methods {
		out, ok := relRun(c, rn, nc.exec("--llm-nav", "--target="+m.Name))
		if !ok {
			c.Event("skipped_crash_or_hang", 1)
			return nil
		}
		c.Event("methods_queried", 1)
		header, callers, total, callees, okp := parseNav(out)
		if !okp && len(m.Sites) == 0 && !strings.Contains(out, "## ") {
			// a method nobody calls and that calls nobody has no section
			continue
		}
		if !okp {
			return mk("nav:no-single-method-section", fmt.Sprintf("--llm-nav --target=%s does not print exactly one method section", m.Name), out)
		}
		wantHead := m.Name + "("
		if m.Class != "" {
			wantHead = m.Class + "." + m.Name + "("
		}
		if !strings.HasPrefix(header, wantHead) {
			return mk("nav:wrong-method", fmt.Sprintf("--llm-nav --target=%s prints the section of %q", m.Name, header), out)
		}
		// multiset comparison of (row, enclosing method, enclosing class)
		key := func(file string, row int, meth, class string) string {
			if meth == "" {
				meth = "top level"
			}
			if class == "" {
				class = "none"
			}
			return fmt.Sprintf("%s:%d|%s|%s", file, row, meth, class)
		}
		want := map[string]int{}
		forms := map[string]string{}
		for _, s := range m.Sites {
			k := key(s.File, s.Row, s.Method, s.Class)
			want[k]++
			forms[k] = s.Form
			c.Event("call_sites_judged", 1)
		}
		got := map[string]int{}
		for _, e := range callers {
			got[key(e.file, e.row, e.method, e.class)]++
		}
		var keys []string
		for k := range want {
			keys = append(keys, k)
		}
		for k := range got {
			if _, ok := want[k]; !ok {
				keys = append(keys, k)
			}
		}
		sort.Strings(keys)
		for _, k := range keys {
			switch {
			case got[k] < want[k]:
				return mk("nav:call-site-missing:"+forms[k], fmt.Sprintf("%s.%s: the call site %s (row|method|class, form %s) is listed %d time(s), written %d time(s)", m.Class, m.Name, k, forms[k], got[k], want[k]), out)
			case got[k] > want[k] && want[k] > 0:
				return mk("nav:call-site-listed-twice:"+forms[k], fmt.Sprintf("%s.%s: the call site %s (form %s) is listed %d times, written %d time(s)", m.Class, m.Name, k, forms[k], got[k], want[k]), out)
			case got[k] > want[k]:
				return mk("nav:caller-entry-without-call-site", fmt.Sprintf("%s.%s: a caller entry %s is listed, no call of the method is written there", m.Class, m.Name, k), out)
			}
		}
		if total != len(m.Sites) {
			return mk("nav:total-callers", fmt.Sprintf("%s.%s: total callers %d, call sites written %d", m.Class, m.Name, total, len(m.Sites)), out)
		}
		for _, cal := range callees {
			c.Event("callees_judged", 1)
			if !contains(m.Callees, cal) {
				return mk("nav:callee-not-in-body", fmt.Sprintf("%s.%s: callee %s is listed, its body contains no call of it", m.Class, m.Name, cal), out)
			}
		}
	}
	return nil
}

func init() {
	register(&Check{ID: "C24", Title: "the LLM navigator's call graph matches the source",
		Replay: func(c *CheckCtx, s *Slot, v *Violation) *Violation {
			var nc nCase
			if json.Unmarshal(v.Case, &nc) != nil {
				return nil
			}
			return judgeNav(c, s.BlackBox(), &nc)
		},
		Run: func(c *CheckCtx) {
			c.rule = "generated programs: class Calc with 1-2 leaf methods and 1-3 caller methods whose bodies call the leaves with the implicit receiver and with `self.` as statements, assignments, if/elsif/unless conditions, while bodies and blocks; an optional subclass calling an inherited leaf; class Tool calling leaves with an explicit receiver; top-level methods; top-level statements calling every method 0-2 times (on Calc and on subclass instances, also inside if conditions). For every method --llm-nav --target=<name> is run. Oracle: the caller entries are exactly the written call sites as a multiset of (row, enclosing method, enclosing class); total callers equals their number; every listed callee is called in the body. distinct_nontrivial = distinct programs"
			c.assumptions = []string{"a call of an inherited method on a subclass instance is a call site of the superclass's method", "method names are unique per program, so --target selects one method"}
			r := c.RNG.Sub(24)
			n := c.N(120, 3000)
			jobs := make([]*nCase, n)
			for i := range jobs {
				jobs[i] = genNav(r)
			}
			c.Eng.Map(n, func(s *Slot, i int) {
				nc := jobs[i]
				if i%37 == 0 {
					c.Sample(map[string]any{"program": clip(nc.Source, 1200)})
				}
				if v := exploreThenJudge(c, s, func(rn Runner) *Violation { return judgeNav(c, rn, nc) }); v != nil {
					c.Report(v)
				}
			})
		}})
}
