package main

import (
	"crypto/sha256"
	"encoding/hex"
	"encoding/json"
	"fmt"
	"os"
	"path/filepath"
	"regexp"
	"sort"
	"strconv"
	"strings"
	"sync"
	"sync/atomic"
	"time"
)

// ---------------------------------------------------------------------------
// violations, known findings, replay

// Violation is one confirmed counterexample. Sig identifies the defect (call
// site / input feature), Case is what `verif replay` needs to re-judge it.
type Violation struct {
	Property string          `json:"property"`
	Sig      string          `json:"sig"`
	What     string          `json:"what"`
	Kind     string          `json:"kind"` // replay kind
	Case     json.RawMessage `json:"case"`
	Expected string          `json:"expected,omitempty"`
	Observed string          `json:"observed,omitempty"`
}

type KnownFinding struct {
	Property string
	Sig      string
	Witness  string
	Text     string
	hit      bool
}

var knownRe = regexp.MustCompile(`^KNOWN-FINDING: property=(\S+) sig=("(?:[^"\\]|\\.)*") witness=(\S+) (.*)$`)

func loadKnown(property string) []*KnownFinding {
	data, err := os.ReadFile(filepath.Join(verifDir, "KNOWN_FINDINGS.txt"))
	if err != nil {
		return nil
	}
	var out []*KnownFinding
	for _, line := range strings.Split(string(data), "\n") {
		m := knownRe.FindStringSubmatch(line)
		if m == nil || m[1] != property {
			continue
		}
		sig, err := strconv.Unquote(m[2])
		if err != nil {
			continue
		}
		out = append(out, &KnownFinding{Property: m[1], Sig: sig, Witness: m[3], Text: m[4]})
	}
	return out
}

// ---------------------------------------------------------------------------
// check context

type CheckCtx struct {
	ID    string
	Tier  string
	Seed  uint64
	Eng   *Engine
	RNG   *RNG
	start time.Time

	mu          sync.Mutex
	evaluations int64
	distinct    map[[12]byte]struct{}
	samples     []any
	events      map[string]int64
	extra       map[string]any
	rule        string
	assumptions []string
	exhaustive  bool

	violations map[string][]*Violation // by signature
	sigCount   map[string]int
	sigOrder   []string
	known      []*KnownFinding
	inconcl    []string
	few        map[string]int

	bbEvery     int          // every n-th relational case is judged black-box directly (0 = default)
	caseCounter atomic.Int64
}

func (c *CheckCtx) Quick() bool { return c.Tier == "quick" }

// N picks a case count by tier.
func (c *CheckCtx) N(quick, thorough int) int {
	if c.Quick() {
		return quick
	}
	return thorough
}

func (c *CheckCtx) Event(kind string, n int64) {
	c.mu.Lock()
	c.events[kind] += n
	c.mu.Unlock()
}

func (c *CheckCtx) Eval(n int64) {
	c.mu.Lock()
	c.evaluations += n
	c.mu.Unlock()
}

// Nontrivial records one distinct non-trivial case (by content key).
func (c *CheckCtx) Nontrivial(key string) {
	h := sha256.Sum256([]byte(key))
	var k [12]byte
	copy(k[:], h[:12])
	c.mu.Lock()
	c.distinct[k] = struct{}{}
	c.mu.Unlock()
}

func (c *CheckCtx) Sample(s any) {
	c.mu.Lock()
	if len(c.samples) < 8 {
		c.samples = append(c.samples, s)
	}
	c.mu.Unlock()
}

// firstFew reports whether fewer than n callers asked for this key before.
func (c *CheckCtx) firstFew(key string, n int) bool {
	c.mu.Lock()
	defer c.mu.Unlock()
	if c.few == nil {
		c.few = map[string]int{}
	}
	c.few[key]++
	return c.few[key] <= n
}

func (c *CheckCtx) Extra(k string, v any) {
	c.mu.Lock()
	c.extra[k] = v
	c.mu.Unlock()
}

func (c *CheckCtx) Inconclusive(msg string) {
	c.mu.Lock()
	if len(c.inconcl) < 20 {
		c.inconcl = append(c.inconcl, msg)
	}
	c.mu.Unlock()
}

func (c *CheckCtx) Report(v *Violation) {
	v.Property = c.ID
	c.mu.Lock()
	defer c.mu.Unlock()
	if _, ok := c.violations[v.Sig]; !ok {
		c.sigOrder = append(c.sigOrder, v.Sig)
	}
	c.sigCount[v.Sig]++
	if len(c.violations[v.Sig]) < 3 {
		c.violations[v.Sig] = append(c.violations[v.Sig], v)
	}
}

func mustJSON(v any) json.RawMessage {
	b, err := json.Marshal(v)
	if err != nil {
		panic(err)
	}
	return b
}

func shortHash(s string) string {
	h := sha256.Sum256([]byte(s))
	return hex.EncodeToString(h[:6])
}

// finish prints verdict lines, writes replay directories and the evidence
// file, and returns the exit status.
func (c *CheckCtx) finish() int {
	c.mu.Lock()
	defer c.mu.Unlock()

	replayRoot := filepath.Join(verifDir, "evidence", "replay", c.ID)
	os.RemoveAll(replayRoot)

	knownBySig := map[string]*KnownFinding{}
	for _, k := range c.known {
		knownBySig[k.Sig] = k
	}

	sort.Strings(c.sigOrder)
	newViolations := 0
	knownHits := map[string]int{}
	var lines []string
	for _, sig := range c.sigOrder {
		vs := c.violations[sig]
		if k, ok := knownBySig[sig]; ok {
			k.hit = true
			knownHits[sig] = c.sigCount[sig]
			continue
		}
		newViolations++
		v := vs[0]
		dir := filepath.Join(replayRoot, shortHash(sig))
		os.MkdirAll(dir, 0o755)
		data, _ := json.MarshalIndent(v, "", " ")
		os.WriteFile(filepath.Join(dir, "violation.json"), data, 0o644)
		writeCaseFiles(dir, v)
		if newViolations <= 40 {
			lines = append(lines, fmt.Sprintf("VIOLATION property=%s replay=%s sig=%q count=%d :: %s", c.ID, dir, sig, c.sigCount[sig], oneLine(v.What, 300)))
		}
	}
	for _, k := range c.known {
		if k.hit {
			fmt.Printf("KNOWN-FINDING: property=%s sig=%q %s\n", c.ID, k.Sig, k.Text)
		}
	}
	for _, l := range lines {
		fmt.Println(l)
	}

	wall := time.Since(c.start).Seconds()
	cov := map[string]any{
		"evaluations":         c.evaluations,
		"distinct_nontrivial": len(c.distinct),
		"rule":                c.rule,
		"samples":             c.samples,
		"events":              c.events,
		"inprocess_runs":      c.Eng.InprocRuns.Load(),
		"blackbox_runs":       c.Eng.BlackboxRuns.Load(),
		"worker_deaths":       c.Eng.WorkerDeaths.Load(),
		"step_max": map[string]any{
			"tokens": c.Eng.MaxTokens.Load(), "eof_reads": c.Eng.MaxEOF.Load(), "walks": c.Eng.MaxWalks.Load(),
			"tokens_per_byte_x1000": c.Eng.MaxTokPerRune.Load(),
		},
		"known_findings_hit": knownHits,
		"degraded":           c.Eng.B.Degraded,
		"workers":            c.Eng.Workers,
	}
	if c.exhaustive {
		cov["exhaustive"] = true
	}
	for k, v := range c.extra {
		cov[k] = v
	}
	if len(c.samples) == 0 {
		cov["samples"] = []any{"(no case produced)"}
	}
	status := "held"
	exit := 0
	if newViolations > 0 {
		status = "violated"
		exit = 1
	} else if len(c.inconcl) > 0 || c.evaluations == 0 || len(c.distinct) < 2 {
		status = "inconclusive"
		exit = 2
		if len(c.inconcl) == 0 {
			c.inconcl = append(c.inconcl, "too few relevant events observed")
		}
	}
	cov["verdict"] = status
	if len(c.inconcl) > 0 {
		cov["inconclusive_reasons"] = c.inconcl
	}
	if c.assumptions == nil {
		c.assumptions = []string{"candidates found in-process are confirmed on the plain binary built from the working tree"}
	}
	ev := map[string]any{
		"property_id": c.ID,
		"tier":        c.Tier,
		"seed":        int64(c.Seed),
		"level":       "exploration",
		"coverage":    cov,
		"assumptions": c.assumptions,
		"wall_s":      wall,
		"violations":  newViolations,
	}
	data, _ := json.MarshalIndent(ev, "", " ")
	os.MkdirAll(filepath.Join(verifDir, "evidence"), 0o755)
	os.WriteFile(filepath.Join(verifDir, "evidence", c.ID+".json"), data, 0o644)

	for _, m := range c.inconcl {
		if exit == 2 {
			fmt.Printf("INCONCLUSIVE property=%s %s\n", c.ID, oneLine(m, 300))
		}
	}
	fmt.Printf("RESULT property=%s tier=%s seed=%d verdict=%s evaluations=%d distinct_nontrivial=%d new_violation_signatures=%d known_findings_hit=%d wall_s=%.1f\n",
		c.ID, c.Tier, c.Seed, status, c.evaluations, len(c.distinct), newViolations, len(knownHits), wall)
	return exit
}

func oneLine(s string, max int) string {
	s = strings.ReplaceAll(s, "\n", "\\n")
	if len(s) > max {
		s = s[:max] + "..."
	}
	return s
}

// writeCaseFiles drops the source files of a violation next to it so that a
// reader can rerun ti by hand.
func writeCaseFiles(dir string, v *Violation) {
	var probe struct {
		Exec  *Exec   `json:"exec"`
		Execs []*Exec `json:"execs"`
	}
	if json.Unmarshal(v.Case, &probe) != nil {
		return
	}
	all := probe.Execs
	if probe.Exec != nil {
		all = append([]*Exec{probe.Exec}, all...)
	}
	for i, e := range all {
		if e == nil {
			continue
		}
		sub := filepath.Join(dir, fmt.Sprintf("exec%d", i))
		os.MkdirAll(sub, 0o755)
		for n, c := range e.Files {
			p := filepath.Join(sub, n)
			os.MkdirAll(filepath.Dir(p), 0o755)
			os.WriteFile(p, []byte(c), 0o644)
		}
		os.WriteFile(filepath.Join(sub, "argv.txt"), []byte(strings.Join(e.Argv, " ")+"\n"), 0o644)
		if e.CfgJSON != nil {
			os.MkdirAll(filepath.Join(sub, ".ti-config"), 0o755)
			for n, c := range e.CfgJSON {
				os.WriteFile(filepath.Join(sub, ".ti-config", n), []byte(c), 0o644)
			}
		}
	}
}

// attachConfig makes an Exec self-contained for replay files.
func (e *Exec) forReplay() *Exec {
	cp := *e
	if e.Config != nil && e.Config != ShippedConfig() {
		cp.CfgJSON = e.Config.Files
	}
	return &cp
}

func (e *Exec) afterLoad() {
	if e.CfgJSON != nil {
		e.Config = &Config{Files: e.CfgJSON}
	}
}

// ---------------------------------------------------------------------------
// registry

type Check struct {
	ID        string
	Title     string
	Run       func(c *CheckCtx)
	Replay    func(c *CheckCtx, s *Slot, v *Violation) *Violation // re-judge black-box; nil = no longer violates
	NeedTools bool
}

var checks = map[string]*Check{}

func register(ch *Check) { checks[ch.ID] = ch }

func newCtx(id, tier string, eng *Engine) *CheckCtx {
	seed := uint64(envInt("VERIF_SEED", 1))
	return &CheckCtx{
		ID: id, Tier: tier, Seed: seed, Eng: eng, RNG: NewRNG(seed ^ hashID(id)),
		start: time.Now(), distinct: map[[12]byte]struct{}{}, events: map[string]int64{},
		extra: map[string]any{}, violations: map[string][]*Violation{}, sigCount: map[string]int{}, known: loadKnown(id),
	}
}

func hashID(id string) uint64 {
	h := sha256.Sum256([]byte(id))
	var x uint64
	for i := 0; i < 8; i++ {
		x = x<<8 | uint64(h[i])
	}
	return x
}

// replayKnown re-judges the witnesses of listed findings.
func (c *CheckCtx) replayKnown(ch *Check) {
	if ch.Replay == nil {
		return
	}
	s := c.Eng.MainSlot()
	for _, k := range c.known {
		data, err := os.ReadFile(filepath.Join(verifDir, k.Witness, "violation.json"))
		if err != nil {
			continue
		}
		var v Violation
		if json.Unmarshal(data, &v) != nil {
			continue
		}
		if nv := ch.Replay(c, s, &v); nv != nil {
			c.Event("known_witness_replayed_violating", 1)
			c.Report(nv)
		} else {
			c.Event("known_witness_replayed_clean", 1)
		}
	}
}
