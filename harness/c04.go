package main

import (
	"fmt"
	"strings"
)

// ---------------------------------------------------------------------------
// C04: editor queries never crash or hang, whatever the row

var cursorLines = []string{
	"x.", "x&.", "Foo.", "Foo::", "@x.", "@@x.", "$x.", "self.", "1.", "\"s\".", "[1].", "{a: 1}.", "nil.", "x.y.", "x.y(1).", "x[0].", "(x).", "x.y do |a| a.", "x = y.", "x = [1, 2].", "if x.", "return x.", "x.\n", " .", ".", "..", "x. ", "x.#", "\"x.", "# x.", "x.to_s.to_i.", "String.new.", "Integer.", "x.class.", "x::", "A::B.", "a.b.c.d.e.", "x.!", "x.y = ", "x.each { |y| y.", "x.each do |y|\ny.", "def f(a)\n  a.", "class A\n  def f\n    @a.", "class A\n  self.",
}

func c04Families(c *CheckCtx) []family {
	modes := [][]string{{"--suggest"}, {"--hover"}, {"--define"}}
	fams := robustFamilies(c, modes)
	items := Corpus()
	fams = append(fams, family{name: "cursor-line", n: c.N(1500, 40000), gen: func(r *RNG, i int) *robustCase {
		it := items[i%len(items)]
		src := it.Source
		// cut at a line boundary (what an editor sends: everything typed so far)
		if idx := allIndexes(src, "\n"); len(idx) > 0 && r.Chance(3, 4) {
			src = src[:Pick(r, idx)+1]
		}
		src += Pick(r, cursorLines)
		if r.Bool() {
			src += "\n"
		}
		e := srcExec(src, Pick(r, modes)...)
		lines := strings.Count(src, "\n") + 1
		row := lines - r.Intn(3)
		if r.Chance(1, 10) {
			row = r.Intn(lines + 3)
		}
		e.Argv = append(e.Argv, fmt.Sprintf("--row=%d", row))
		return &robustCase{Exec: e}
	}})
	if !c.Quick() {
		// every row of a sample of corpus programs and their line prefixes
		type rowJob struct {
			src  string
			row  int
			mode []string
		}
		var jobs []rowJob
		r := c.RNG.Sub(4004)
		for k := 0; k < 150; k++ {
			it := items[r.Intn(len(items))]
			src := it.Source
			if r.Bool() {
				src = cutPrefix(r, src)
			}
			lines := strings.Count(src, "\n") + 1
			if lines > 80 {
				continue
			}
			for row := 0; row <= lines+2; row++ {
				for _, m := range modes {
					jobs = append(jobs, rowJob{src, row, m})
				}
			}
		}
		fams = append(fams, family{name: "every-row", n: len(jobs), gen: func(r *RNG, i int) *robustCase {
			j := jobs[i]
			e := srcExec(j.src, j.mode...)
			e.Argv = append(e.Argv, fmt.Sprintf("--row=%d", j.row))
			return &robustCase{Exec: e}
		}})
	}
	return fams
}

func init() {
	register(&Check{ID: "C04", Title: "editor queries never crash or hang, whatever the row", Replay: replayRobust("C04"), Run: func(c *CheckCtx) {
		c.rule = "C01's input families under --suggest/--hover/--define with a seeded --row in 0..lines+2, plus cursor lines (`recv.`, `Recv.`, `@x.`, `x&.`, inside strings/comments/blocks) appended to corpus line prefixes with the row on or next to that line; thorough adds every row x 3 modes of sampled programs. Oracle: status 0, no panic, every stdout line is a %a:::b:::c (suggest/hover), %f:::c:::m:::file:::row / @f:::c / $f:::c:::pf:::pc (define) record or a diagnostic of the target file; logical hangs are confirmed by 3/3 black-box `timeout`. distinct_nontrivial = distinct (mode,row,source) cases that printed output or were anomalous"
		c.assumptions = []string{"anomalies are confirmed on the plain binary; rows are passed with --row=N exactly as the editor plugins do"}
		fams := c04Families(c)
		// rows for the shared families
		for i := range fams {
			if fams[i].name == "cursor-line" || fams[i].name == "every-row" {
				continue
			}
			g := fams[i].gen
			fams[i].gen = func(r *RNG, k int) *robustCase {
				rc := g(r, k)
				addRowArg(r, rc.Exec)
				return rc
			}
		}
		runFamilies(c, fams, "C04", c.N(3, 2), false)
	}})
}
