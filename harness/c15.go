package main

import (
	"encoding/json"
	"fmt"
	"regexp"
	"sort"
	"strings"
)

// ---------------------------------------------------------------------------
// C15: user method parameter and return types are inferred from all call sites.
//
// Generated programs: 1-4 user methods (top level, instance methods of a
// class, class methods) with positional, default and keyword parameters; 1-5
// call sites each, before or after the definition, at top level and inside
// other methods; the body probes every parameter (dbtp), optionally contains
// an operation every argument class answers (`a.to_s`) or one none answers
// (`a.zz_nope`), optionally an early `return <literal> if flag`, and ends in
// a literal, a parameter or `a.to_s`. The model: a parameter covers the union
// of the argument classes of all call sites (plus its default's class); a call
// returns the union of the body's result and its explicit return values.

type uParam struct {
	Name     string   `json:"name"`
	Kind     string   `json:"kind"` // pos | default | kw | kwreq
	DefClass string   `json:"def_class,omitempty"`
	Want     []string `json:"want"` // classes passed at call sites (plus the default's class)
}

type uExpect struct {
	Row  int      `json:"row"`
	Kind string   `json:"kind"` // param | ret | noerr | err | sig
	Want []string `json:"want,omitempty"`
	What string   `json:"what"`
	Meth int      `json:"meth,omitempty"`
}

type uCase struct {
	Source  string     `json:"source"`
	Expects []uExpect  `json:"expects"`
	Methods [][]uParam `json:"methods"`
	Rets    [][]string `json:"rets"`
	Names   []string   `json:"names"`
	Feature string     `json:"feature"`
	// one call row to hover, and the method called there (-1 = none)
	HoverRow  int `json:"hover_row"`
	HoverMeth int `json:"hover_meth"`
}

func genUserMethods(r *RNG) *uCase {
	uc := &uCase{HoverMeth: -1}
	var top, classBody, calls, pre []string
	scal := []string{"Integer", "String", "Float", "Symbol"}
	nm := 1 + r.Intn(4)
	type meth struct {
		name    string
		kind    string // top | inst | static
		params  []uParam
		ret     []string // nil = not judged
		hasFail bool
		def     []string // lines
		probes  []int    // index in def of each param probe
		okLine  int
		failLn  int
		// index in def of the probe after a parameter was assigned (0 = none)
		reassignProbe int
		reassignClass string
		retSelf int // index of param the result passes through (-1)
	}
	var ms []*meth
	feats := map[string]bool{}
	for i := 0; i < nm; i++ {
		m := &meth{name: fmt.Sprintf("um%d", i), kind: Pick(r, []string{"top", "top", "inst", "static"}), okLine: -1, failLn: -1, retSelf: -1}
		np := 1 + r.Intn(3)
		sawDefault := false
		for k := 0; k < np; k++ {
			p := uParam{Name: string(rune('a' + k)), Kind: "pos"}
			if sawDefault || (k > 0 && r.Chance(1, 3)) {
				p.Kind = "default"
				p.DefClass = Pick(r, scal)
				sawDefault = true
			}
			m.params = append(m.params, p)
		}
		if r.Chance(1, 3) {
			p := uParam{Name: "kw", Kind: Pick(r, []string{"kw", "kwreq"})}
			if p.Kind == "kw" {
				p.DefClass = Pick(r, scal)
			}
			m.params = append(m.params, p)
			if r.Bool() {
				// a second keyword whose name extends the first one's
				p2 := uParam{Name: "kw2", Kind: Pick(r, []string{"kw", "kwreq"})}
				if p2.Kind == "kw" {
					p2.DefClass = Pick(r, scal)
				}
				m.params = append(m.params, p2)
			}
		}
		feats[m.kind] = true
		ms = append(ms, m)
	}
	// call sites: argument classes per parameter
	type site struct {
		m     *meth
		args  []string
		where string   // before | after | inside
		pre   []string // union variables the arguments use (locals of the calling scope)
		thru  []string // where == "through": literals the passing caller is called with
	}
	var sites []site
	unionVars := 0
	for _, m := range ms {
		ns := 1 + r.Intn(5)
		for s := 0; s < ns; s++ {
			var args, sitePre, thru []string
			skipDefaults := false
			through := m.kind != "inst" && m.params[0].Kind == "pos" && r.Chance(1, 6)
			for pi := range m.params {
				p := &m.params[pi]
				if pi == 0 && through {
					// the argument is a parameter of the calling method, which is itself
					// called with two different classes
					if r.Chance(1, 3) {
						// an expression on the caller's own parameter: its class is only
						// known once the caller's call sites are
						if r.Bool() {
							p.Want = append(p.Want, "String")
							thru = []string{nLit(Pick(r, scal)), nLit(Pick(r, scal))}
							args = append(args, "v.to_s")
						} else {
							p.Want = append(p.Want, "Integer")
							thru = []string{"1", "41"}
							args = append(args, "v + 1")
						}
						continue
					}
					c1, c2 := Pick(r, scal), Pick(r, scal)
					p.Want = append(p.Want, c1, c2)
					thru = []string{nLit(c1), nLit(c2)}
					args = append(args, "v")
					continue
				}
				switch p.Kind {
				case "default":
					// positional: once one is left out, the later ones are too
					if skipDefaults || r.Bool() {
						skipDefaults = true
						continue
					}
				case "kw":
					if r.Bool() {
						continue
					}
				}
				var text string
				if r.Chance(1, 5) {
					// a union-typed variable as argument
					a, b := Pick(r, scal), Pick(r, scal)
					if a != b {
						unionVars++
						vn := fmt.Sprintf("uv%d", unionVars)
						sitePre = append(sitePre, fmt.Sprintf("%s = flag ? %s : %s", vn, nLit(a), nLit(b)))
						p.Want = append(p.Want, a, b)
						text = vn
					}
				}
				if text == "" {
					c := Pick(r, scal)
					p.Want = append(p.Want, c)
					text = nLit(c)
				}
				if p.Kind == "kw" || p.Kind == "kwreq" {
					text = p.Name + ": " + text
				}
				args = append(args, text)
			}
			// callers may write keywords in any order
			if n := len(args); n >= 2 && strings.HasPrefix(args[n-1], "kw2: ") && strings.HasPrefix(args[n-2], "kw: ") && r.Bool() {
				args[n-1], args[n-2] = args[n-2], args[n-1]
			}
			where := "after"
			switch {
			case through:
				where = "through"
			case m.kind == "top" && r.Chance(1, 4):
				where = "before"
			case r.Chance(1, 4):
				where = "inside"
			}
			feats["call-"+where] = true
			sites = append(sites, site{m, args, where, sitePre, thru})
		}
	}
	// definitions
	for _, m := range ms {
		for pi := range m.params {
			p := &m.params[pi]
			if p.DefClass != "" {
				p.Want = append(p.Want, p.DefClass)
			}
			p.Want = dedup(sortedCopy(p.Want))
		}
		var ps []string
		for _, p := range m.params {
			switch p.Kind {
			case "pos":
				ps = append(ps, p.Name)
			case "default":
				ps = append(ps, p.Name+" = "+nLit(p.DefClass))
			case "kw":
				ps = append(ps, p.Name+": "+nLit(p.DefClass))
			case "kwreq":
				ps = append(ps, p.Name+":")
			}
		}
		head := "def " + m.name + "(" + strings.Join(ps, ", ") + ")"
		if m.kind == "static" {
			head = "def self." + m.name + "(" + strings.Join(ps, ", ") + ")"
		}
		m.def = append(m.def, head)
		for _, p := range m.params {
			m.probes = append(m.probes, len(m.def))
			m.def = append(m.def, "  dbtp "+p.Name)
		}
		if r.Bool() {
			m.okLine = len(m.def)
			m.def = append(m.def, "  "+m.params[0].Name+".to_s")
			feats["ok-op"] = true
		}
		// a parameter (not the first: the operations below use that one) is assigned
		// in the body: from there on it has the assigned class; the signature keeps
		// what the call sites pass
		reassigned, reassignedClass := -1, ""
		if len(m.params) > 1 && r.Chance(1, 4) {
			reassigned = 1 + r.Intn(len(m.params)-1)
			reassignedClass = Pick(r, scal)
			m.def = append(m.def, "  "+m.params[reassigned].Name+" = "+nLit(reassignedClass))
			m.reassignProbe = len(m.def)
			m.reassignClass = reassignedClass
			m.def = append(m.def, "  dbtp "+m.params[reassigned].Name)
			feats["param-reassigned"] = true
		}
		var ret []string
		if r.Chance(1, 4) {
			m.hasFail = true
			m.failLn = len(m.def)
			m.def = append(m.def, "  "+m.params[0].Name+".zz_nope")
			m.def = append(m.def, "  1")
			feats["failing-op"] = true
		} else {
			if r.Chance(1, 3) {
				// an explicit return, in every position a return can stand in; a
				// bare `return` hands back nil
				c := Pick(r, scal)
				form := r.Intn(11)
				switch form {
				case 0, 1:
					m.def = append(m.def, "  return "+nLit(c)+" if flag")
				case 2:
					m.def = append(m.def, "  return "+nLit(c)+" unless flag")
				case 3:
					m.def = append(m.def, "  if flag", "    return "+nLit(c), "  end")
				case 4:
					m.def = append(m.def, "  if flag", "    return", "  end")
					c = "NilClass"
				case 5:
					m.def = append(m.def, "  return if flag")
					c = "NilClass"
				case 6:
					m.def = append(m.def, "  [1, 2].each do |e|", "    return "+nLit(c)+" if flag", "  end")
				case 7:
					m.def = append(m.def, "  while flag", "    return "+nLit(c), "  end")
				case 9:
					// one-line if: the bare return is followed by `end` on its own line
					m.def = append(m.def, "  if flag then return end")
					c = "NilClass"
				case 10:
					m.def = append(m.def, "  if flag then return "+nLit(c)+" end")
				default:
					m.def = append(m.def, "  case flag", "  when true then return "+nLit(c), "  end")
				}
				ret = append(ret, c)
				feats["early-return"] = true
				feats[fmt.Sprintf("early-return-form-%d", form)] = true
			}
			switch r.Intn(5) {
			case 4:
				// a begin expression: the body's value or the rescue clause's, never
				// the ensure clause's
				c1, c2 := Pick(r, scal), Pick(r, scal)
				m.def = append(m.def, "  begin", "    "+nLit(c1), "  rescue", "    "+nLit(c2))
				if r.Bool() {
					m.def = append(m.def, "  ensure", "    "+nLit(Pick(r, scal)))
				}
				m.def = append(m.def, "  end")
				ret = append(ret, c1, c2)
				feats["returns-begin-rescue"] = true
			case 3:
				// an instance of a user class, at top level or inside a namespace
				oc := Pick(r, []string{"Retbox", "Shapes::Retbox"})
				m.def = append(m.def, "  "+oc+".new")
				ret = append(ret, oc)
				feats["returns-object"] = true
			case 0:
				c := Pick(r, scal)
				m.def = append(m.def, "  "+nLit(c))
				ret = append(ret, c)
			case 1:
				pi := r.Intn(len(m.params))
				m.def = append(m.def, "  "+m.params[pi].Name)
				if pi == reassigned {
					ret = append(ret, reassignedClass)
				} else {
					ret = append(ret, m.params[pi].Want...)
				}
				feats["returns-param"] = true
			default:
				m.def = append(m.def, "  "+m.params[0].Name+".to_s")
				ret = append(ret, "String")
			}
			if r.Chance(1, 5) {
				// rescue and ensure clauses of the method body itself
				c2 := Pick(r, scal)
				m.def = append(m.def, "rescue", "  "+nLit(c2))
				ret = append(ret, c2)
				if r.Bool() {
					m.def = append(m.def, "ensure", "  "+nLit(Pick(r, scal)))
				}
				feats["method-level-rescue"] = true
			}
			m.ret = dedup(sortedCopy(ret))
		}
		m.def = append(m.def, "end")
	}
	// assemble: flag, union vars, before-calls, top-level defs, class, receivers, after-calls
	var lines []string
	rowOf := func() int { return len(lines) + 1 }
	emit := func(s string) { lines = append(lines, s) }
	emit("flag = true")
	// classes a method may return an instance of
	emit("class Retbox")
	emit("end")
	emit("module Shapes")
	emit("  class Retbox")
	emit("  end")
	emit("end")
	for _, l := range pre {
		emit(l)
	}
	callText := func(s site) string {
		recv := ""
		switch s.m.kind {
		case "inst":
			recv = "host."
		case "static":
			recv = "Host."
		}
		return recv + s.m.name + "(" + strings.Join(s.args, ", ") + ")"
	}
	nres := 0
	emitCall := func(s site) {
		for _, l := range s.pre {
			emit(l)
		}
		nres++
		v := fmt.Sprintf("r%d", nres)
		if s.where == "after" && (uc.HoverMeth < 0 || r.Chance(1, 3)) {
			uc.HoverRow = rowOf()
			for mi, m := range ms {
				if m == s.m {
					uc.HoverMeth = -2 - mi // resolved to the emission index below
				}
			}
		}
		emit(v + " = " + callText(s))
		if s.m.ret != nil {
			uc.Expects = append(uc.Expects, uExpect{Row: rowOf(), Kind: "ret", Want: s.m.ret, What: "result of " + s.m.name + " (" + s.where + ")"})
		}
		emit("dbtp " + v)
	}
	for _, s := range sites {
		if s.where == "before" {
			emitCall(s)
		}
	}
	emitDef := func(m *meth, indent string) {
		base := rowOf()
		for _, l := range m.def {
			emit(indent + l)
		}
		mi := len(uc.Methods)
		uc.Expects = append(uc.Expects, uExpect{Row: base, Kind: "sig", What: "signature of " + m.name, Meth: mi})
		for k, pi := range m.probes {
			uc.Expects = append(uc.Expects, uExpect{Row: base + pi, Kind: "param", Want: m.params[k].Want, What: "parameter " + m.params[k].Name + " of " + m.name})
		}
		if m.reassignProbe > 0 {
			uc.Expects = append(uc.Expects, uExpect{Row: base + m.reassignProbe, Kind: "ret", Want: []string{m.reassignClass}, What: "parameter of " + m.name + " after an assignment in the body"})
		}
		if m.okLine >= 0 {
			uc.Expects = append(uc.Expects, uExpect{Row: base + m.okLine, Kind: "noerr", What: "operation every argument class answers, in " + m.name})
		}
		if m.failLn >= 0 {
			uc.Expects = append(uc.Expects, uExpect{Row: base + m.failLn, Kind: "err", What: "operation no argument class answers, in " + m.name})
		}
		uc.Methods = append(uc.Methods, m.params)
		uc.Rets = append(uc.Rets, m.ret)
		uc.Names = append(uc.Names, m.name)
	}
	for _, m := range ms {
		if m.kind == "top" {
			emitDef(m, "")
		}
	}
	hasClass := false
	for _, m := range ms {
		if m.kind != "top" {
			hasClass = true
		}
	}
	if hasClass {
		emit("class Host")
		for _, m := range ms {
			if m.kind != "top" {
				emitDef(m, "  ")
			}
		}
		emit("end")
		emit("host = Host.new")
	}
	ncaller := 0
	for _, s := range sites {
		switch s.where {
		case "after":
			emitCall(s)
		case "through":
			ncaller++
			cn := fmt.Sprintf("passer%d", ncaller)
			emit("def " + cn + "(v)")
			emit("  flag = true")
			for _, l := range s.pre {
				emit("  " + l)
			}
			emit("  " + callText(s))
			emit("end")
			for _, l := range s.thru {
				emit("cr = " + cn + "(" + l + ")")
				if s.m.ret != nil {
					uc.Expects = append(uc.Expects, uExpect{Row: rowOf(), Kind: "ret", Want: s.m.ret, What: "result of " + s.m.name + " through " + cn})
				}
				emit("dbtp cr")
			}
		case "inside":
			ncaller++
			cn := fmt.Sprintf("caller%d", ncaller)
			if s.m.kind == "inst" {
				// host is a top-level local: pass it in
				emit("def " + cn + "(host)")
			} else {
				emit("def " + cn)
			}
			emit("  flag = true")
			for _, l := range s.pre {
				emit("  " + l)
			}
			emit("  " + callText(s))
			emit("end")
			if s.m.kind == "inst" {
				emit("cr = " + cn + "(host)")
			} else {
				emit("cr = " + cn)
			}
			if s.m.ret != nil {
				uc.Expects = append(uc.Expects, uExpect{Row: rowOf(), Kind: "ret", Want: s.m.ret, What: "result of " + s.m.name + " through " + cn})
			}
			emit("dbtp cr")
		}
	}
	if uc.HoverMeth <= -2 {
		name := ms[-2-uc.HoverMeth].name
		uc.HoverMeth = -1
		for i, n := range uc.Names {
			if n == name {
				uc.HoverMeth = i
			}
		}
	}
	_, _, _ = top, classBody, calls
	uc.Source = strings.Join(lines, "\n") + "\n"
	var fs []string
	for f := range feats {
		fs = append(fs, f)
	}
	sort.Strings(fs)
	uc.Feature = strings.Join(fs, "+")
	return uc
}

var sigLineRe = regexp.MustCompile(`^\((.*)\) -> (.*) \[([ic])/(public|private|protected)\]$`)

// splitTop splits s at commas that are not inside <...>.
func splitTop(s string) []string {
	var out []string
	depth, start := 0, 0
	for i := 0; i < len(s); i++ {
		switch s[i] {
		case '<':
			depth++
		case '>':
			depth--
		case ',':
			if depth == 0 {
				out = append(out, strings.TrimSpace(s[start:i]))
				start = i + 1
			}
		}
	}
	if strings.TrimSpace(s[start:]) != "" {
		out = append(out, strings.TrimSpace(s[start:]))
	}
	return out
}

func subset(a, b []string) bool {
	for _, x := range a {
		if !contains(b, x) {
			return false
		}
	}
	return true
}

func judgeUser(c *CheckCtx, rn Runner, uc *uCase) *Violation {
	out, ok := relRun(c, rn, &Exec{Files: map[string]string{targetFile: uc.Source}, Argv: []string{targetFile, "-i"}})
	if !ok {
		c.Event("skipped_crash_or_hang", 1)
		return nil
	}
	c.Nontrivial(uc.Source)
	diag := map[int][]Rec{}
	hint := map[int][]Rec{}
	for _, r := range parseOut(out) {
		if r.Row <= 0 {
			continue
		}
		if r.Hint {
			hint[r.Row] = append(hint[r.Row], r)
		} else {
			diag[r.Row] = append(diag[r.Row], r)
		}
	}
	mk := func(sig, what string) *Violation {
		return &Violation{Sig: sig, Kind: "user-methods", Case: mustJSON(uc), What: what, Observed: clip(out, 3000)}
	}
	for _, e := range uc.Expects {
		switch e.Kind {
		case "param", "ret":
			c.Event(e.Kind+"_probes_judged", 1)
			recs := diag[e.Row]
			if len(recs) != 1 {
				return mk("probe-output:"+e.Kind, fmt.Sprintf("row %d (%s): expected exactly one type line, got %d", e.Row, e.What, len(recs)))
			}
			got, okp := parseTiType(recs[0].Msg)
			if !okp {
				c.Event("types_not_parsed", 1)
				continue
			}
			want := mt(e.Want...)
			switch e.Kind {
			case "param":
				if !subset(want.Atoms, got.Atoms) {
					return mk("param-misses-call-site:"+want.String()+"=>"+got.String(), fmt.Sprintf("row %d (%s): ti reports %s, the call sites pass %s", e.Row, e.What, recs[0].Msg, want.String()))
				}
				if !subset(got.Atoms, want.Atoms) {
					return mk("param-has-class-never-passed:"+want.String()+"=>"+got.String(), fmt.Sprintf("row %d (%s): ti reports %s, but only %s is ever passed (or is the default)", e.Row, e.What, recs[0].Msg, want.String()))
				}
			default:
				if !got.equal(want) {
					return mk("return-type:"+want.String()+"=>"+got.String(), fmt.Sprintf("row %d (%s): ti reports %s, the body yields %s", e.Row, e.What, recs[0].Msg, want.String()))
				}
			}
		case "noerr":
			c.Event("ok_operations_judged", 1)
			if len(diag[e.Row]) > 0 {
				return mk("false-alarm-in-body:"+msgTemplate(diag[e.Row][0].Msg), fmt.Sprintf("row %d (%s): reported: %s", e.Row, e.What, diag[e.Row][0].Msg))
			}
		case "err":
			c.Event("failing_operations_judged", 1)
			if len(diag[e.Row]) == 0 {
				return mk("missed-failing-operation", fmt.Sprintf("row %d (%s): no diagnostic", e.Row, e.What))
			}
		case "sig":
			c.Event("signatures_judged", 1)
			var sig []string
			for _, h := range hint[e.Row] {
				if m := sigLineRe.FindStringSubmatch(h.Msg); m != nil {
					sig = m
				}
			}
			if sig == nil {
				return mk("signature-hint-missing", fmt.Sprintf("row %d (%s): no `(...) -> T [i|c/visibility]` hint on the def row", e.Row, e.What))
			}
			params := uc.Methods[e.Meth]
			parts := splitTop(sig[1])
			if len(parts) != len(params) {
				return mk("signature-param-count", fmt.Sprintf("row %d (%s): hint %q has %d parameters, the definition %d", e.Row, e.What, sig[0], len(parts), len(params)))
			}
			for i, p := range params {
				txt := parts[i]
				if p.Kind == "kw" || p.Kind == "kwreq" {
					if !strings.HasPrefix(txt, p.Name+": ") {
						return mk("signature-keyword-name", fmt.Sprintf("row %d (%s): parameter %d of hint %q should be keyword %s", e.Row, e.What, i, sig[0], p.Name))
					}
					txt = strings.TrimPrefix(txt, p.Name+": ")
				}
				txt = strings.TrimPrefix(txt, "default ")
				got, okp := parseTiType(txt)
				if !okp {
					continue
				}
				if !subset(p.Want, got.Atoms) {
					return mk("signature-param-misses-call-site", fmt.Sprintf("row %d (%s): hint %q, parameter %s should cover %v", e.Row, e.What, sig[0], p.Name, p.Want))
				}
			}
			if ret := uc.Rets[e.Meth]; ret != nil {
				if got, okp := parseTiType(sig[2]); okp && !got.equal(mt(ret...)) {
					return mk("signature-return-type", fmt.Sprintf("row %d (%s): hint %q, the body yields %s", e.Row, e.What, sig[0], mt(ret...).String()))
				}
			}
		}
	}
	if uc.HoverMeth >= 0 {
		hout, ok := relRun(c, rn, &Exec{Files: map[string]string{targetFile: uc.Source}, Argv: []string{targetFile, "--hover", fmt.Sprintf("--row=%d", uc.HoverRow)}})
		if !ok {
			return nil
		}
		c.Event("hovers_judged", 1)
		var line string
		for _, l := range strings.Split(hout, "\n") {
			if strings.HasPrefix(l, "%") {
				line = l
				break
			}
		}
		name := uc.Names[uc.HoverMeth]
		mkh := func(sig, what string) *Violation {
			return &Violation{Sig: sig, Kind: "user-methods", Case: mustJSON(uc), What: what, Observed: clip(hout, 1500)}
		}
		f := strings.Split(line, ":::")
		if len(f) < 2 || f[0] != "%"+name {
			return mkh("hover-missing", fmt.Sprintf("--hover --row=%d (a call of %s) prints %q", uc.HoverRow, name, line))
		}
		sigText := f[1]
		open, arrow := strings.Index(sigText, "("), strings.LastIndex(sigText, ") -> ")
		if open < 0 || arrow < open {
			return mkh("hover-signature-shape", fmt.Sprintf("--hover --row=%d prints %q", uc.HoverRow, line))
		}
		parts := splitTop(sigText[open+1 : arrow])
		params := uc.Methods[uc.HoverMeth]
		if len(parts) != len(params) {
			return mkh("hover-param-count", fmt.Sprintf("--hover --row=%d: %q has %d parameters, %s has %d", uc.HoverRow, sigText, len(parts), name, len(params)))
		}
		for i, p := range params {
			txt := parts[i]
			if p.Kind == "kw" || p.Kind == "kwreq" {
				txt = strings.TrimPrefix(txt, p.Name+": ")
			}
			txt = strings.TrimPrefix(txt, "default ")
			if got, okp := parseTiType(txt); okp && !subset(p.Want, got.Atoms) {
				return mkh("hover-param-misses-call-site", fmt.Sprintf("--hover --row=%d: %q, parameter %s should cover %v", uc.HoverRow, sigText, p.Name, p.Want))
			}
		}
		if ret := uc.Rets[uc.HoverMeth]; ret != nil {
			if got, okp := parseTiType(strings.TrimSpace(sigText[arrow+5:])); okp && !got.equal(mt(ret...)) {
				return mkh("hover-return-type", fmt.Sprintf("--hover --row=%d: %q, the body yields %s", uc.HoverRow, sigText, mt(ret...).String()))
			}
		}
	}
	return nil
}

func init() {
	register(&Check{ID: "C15", Title: "user method parameter and return types are inferred from all call sites",
		Replay: func(c *CheckCtx, s *Slot, v *Violation) *Violation {
			var uc uCase
			if json.Unmarshal(v.Case, &uc) != nil {
				return nil
			}
			return judgeUser(c, s.BlackBox(), &uc)
		},
		Run: func(c *CheckCtx) {
			c.rule = "generated programs: 1-4 user methods (top level, instance methods and class methods of a class) with positional, default and keyword parameters; 1-5 call sites each with literal or union-variable arguments, before the definition (top-level methods), after it, and inside other methods that are themselves called; bodies probe every parameter with dbtp, may contain `p.to_s` (every class answers) or `p.zz_nope` (none answers), an explicit return in one of eleven positions (modifier if/unless, inside if, bare, inside a block, a while, a case, a one-line `if ... then return [v] end`), and end in a begin/rescue/ensure expression or have rescue/ensure clauses of their own, a literal, a parameter or `p.to_s`; run with -i. Oracle: each parameter probe and the -i signature hint cover the union of the classes passed at all call sites (and contain no class that is neither passed nor the default's); each call's result equals the union of the body result and explicit return values; no diagnostic on `p.to_s`, a diagnostic on `p.zz_nope`. distinct_nontrivial = distinct programs"
			c.assumptions = []string{"a defaulted parameter's type includes its default literal's class", "methods whose body contains the failing operation are not judged for their return type (recovery ends the body)"}
			r := c.RNG.Sub(15)
			n := c.N(300, 8000)
			jobs := make([]*uCase, n)
			feat := map[string]int{}
			for i := range jobs {
				jobs[i] = genUserMethods(r)
				for _, f := range strings.Split(jobs[i].Feature, "+") {
					feat[f]++
				}
			}
			c.Extra("programs_with_feature", feat)
			c.Eng.Map(n, func(s *Slot, i int) {
				uc := jobs[i]
				if i%53 == 0 {
					c.Sample(map[string]any{"program": clip(uc.Source, 1200)})
				}
				if v := exploreThenJudge(c, s, func(rn Runner) *Violation { return judgeUser(c, rn, uc) }); v != nil {
					c.Report(v)
				}
			})
		}})
}
