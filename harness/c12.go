package main

import (
	"encoding/json"
	"fmt"
	"regexp"
	"sort"
	"strings"
)

// ---------------------------------------------------------------------------
// C12: analysing a program never alters configured builtin signatures

type tableCase struct {
	Exec   *Exec  `json:"exec"`
	Probe  string `json:"probe,omitempty"` // probe block appended for the black-box relation
	Origin string `json:"origin"`
}

var dumpKeyRe = regexp.MustCompile(`class="([^"]*)" method="([^"]*)" var="([^"]*)"`)

// firstFieldDiff names the first field whose rendering differs.
func firstFieldDiff(before, after string) string {
	n := len(before)
	if len(after) < n {
		n = len(after)
	}
	i := 0
	for i < n && before[i] == after[i] {
		i++
	}
	// back up to the preceding "Name="
	j := i
	if j > len(before) {
		j = len(before)
	}
	s := before[:j]
	if k := strings.LastIndex(s, "="); k >= 0 {
		start := strings.LastIndexAny(s[:k], " {[&")
		return s[start+1 : k]
	}
	return "?"
}

func literalFor(ts TypeSet, r *RNG) string {
	switch {
	case ts.Untyped || ts.Grey || ts.Special != "":
		return Pick(r, []string{"1", "\"s\"", ":a"})
	case ts.Elem != nil:
		return "[" + literalFor(*ts.Elem, r) + "]"
	case len(ts.Atoms) == 0:
		return "nil"
	}
	switch Pick(r, ts.Atoms) {
	case "Integer":
		return fmt.Sprintf("%d", 1+r.Intn(9))
	case "String":
		return "\"s\""
	case "Float":
		return "1.5"
	case "Symbol":
		return ":a"
	case "NilClass":
		return "nil"
	case "Bool":
		return "true"
	case "Array":
		return "[1, 2]"
	case "Hash":
		return "{a: 1}"
	case "Range":
		return "(1..2)"
	}
	return "1"
}

var valueReceivers = map[string][]string{
	"Integer": {"1", "42"}, "String": {"\"s\"", "\"abc\""}, "Float": {"1.5"}, "Symbol": {":a"}, "NilClass": {"nil"}, "Bool": {"true"},
	"Array": {"[1, 2]", "[\"a\", 1]", "[1.5]"}, "Hash": {"{a: 1}", "{a: 1, b: \"s\"}"}, "Range": {"(1..3)"},
}

// sweepProgram calls configured methods on fresh and on union receivers,
// with fitting and non-fitting arguments.
func sweepProgram(r *RNG, m *CfgModel, n int) string {
	var sb strings.Builder
	sb.WriteString("flag = true\n")
	classes := []string{"Integer", "String", "Float", "Symbol", "NilClass", "Bool", "Array", "Hash", "Range"}
	for i := 0; i < n; i++ {
		cl := Pick(r, classes)
		mc := m.Classes["Builtin::"+cl]
		if mc == nil || len(mc.Instance) == 0 {
			continue
		}
		names := make([]string, 0, len(mc.Instance))
		for nm := range mc.Instance {
			names = append(names, nm)
		}
		sort.Strings(names)
		nm := Pick(r, names)
		mm := Pick(r, mc.Instance[nm])
		var args []string
		for _, p := range mm.Params {
			if p.Key != "" {
				if r.Bool() {
					args = append(args, p.Key+": "+literalFor(p.Type, r))
				}
				continue
			}
			if p.Default && r.Bool() {
				break
			}
			if r.Chance(1, 6) {
				args = append(args, Pick(r, []string{"1", "\"s\"", "nil", "[1]", "1.5"})) // possibly wrong type
			} else {
				args = append(args, literalFor(p.Type, r))
			}
			if p.Rest {
				for k := r.Intn(3); k > 0; k-- {
					args = append(args, literalFor(p.Type, r))
				}
			}
		}
		recv := Pick(r, valueReceivers[cl])
		switch r.Intn(4) {
		case 0: // union receiver
			cl2 := Pick(r, classes)
			fmt.Fprintf(&sb, "u%d = flag ? %s : %s\n", i, recv, Pick(r, valueReceivers[cl2]))
			recv = fmt.Sprintf("u%d", i)
		case 1: // variable receiver
			fmt.Fprintf(&sb, "v%d = %s\n", i, recv)
			recv = fmt.Sprintf("v%d", i)
		}
		call := recv + "." + nm
		isOp := !regexp.MustCompile(`^[a-z_]`).MatchString(nm)
		switch {
		case isOp && len(args) == 1 && nm != "[]" && nm != "[]=":
			call = recv + " " + nm + " " + args[0]
		case isOp:
			continue
		case len(args) > 0:
			call += "(" + strings.Join(args, ", ") + ")"
		}
		if len(mm.BlockParams) > 0 && r.Bool() {
			call += " { |bx| bx }"
		}
		switch r.Intn(6) {
		case 0, 1:
			fmt.Fprintf(&sb, "r%d = %s\n", i, call)
		case 2:
			fmt.Fprintf(&sb, "%s\n", call)
		case 3: // the value is printed, then an unrelated assignment follows
			fmt.Fprintf(&sb, "p(%s)\nzw%d = %s\n", call, i, Pick(r, []string{"{a: 1}", "\"s\"", "[1]", ":k", "1.5"}))
		case 4: // conditional assignment on the call's result
			fmt.Fprintf(&sb, "%s ||= %s\n", call, Pick(r, []string{"\"s\"", "1", "[1]"}))
		default: // the receiver is grown destructively afterwards
			fmt.Fprintf(&sb, "r%d = %s\nr%d.push(%s)\n", i, call, i, Pick(r, []string{"1", "\"s\"", ":k"}))
		}
	}
	body := sb.String()
	switch r.Intn(5) {
	case 0: // the same statements in a class body
		return "class Zwbox\n" + body + "end\n"
	case 1: // inside a method of a subclass of a builtin, with bare inherited names as receivers
		parent := Pick(r, []string{"String", "Array", "Hash"})
		mc := m.Classes["Builtin::"+parent]
		var bare []string
		for nm, ms := range mc.Instance {
			if regexp.MustCompile(`^[a-z_]+$`).MatchString(nm) && len(ms[0].Params) == 0 {
				bare = append(bare, nm)
			}
		}
		sort.Strings(bare)
		var extra strings.Builder
		for k := 0; k < 3 && len(bare) > 0; k++ {
			nm := Pick(r, bare)
			fmt.Fprintf(&extra, "    %s.%s\n", nm, Pick(r, []string{"push(1)", "<< \"s\"", "to_s", "push(:k)"}))
			fmt.Fprintf(&extra, "    zv%d = %s\n    zv%d = %s\n", k, nm, k, Pick(r, []string{"1", "{a: 1}", "\"s\""}))
		}
		return "class Zwsub < " + parent + "\n  def zwm\n" + extra.String() + "  end\nend\n" + body
	}
	return body
}

// probeBlock: calls whose type must not depend on what was analysed before.
func probeBlock(r *RNG, m *CfgModel) string {
	var sb strings.Builder
	classes := []string{"Integer", "String", "Float", "Array", "Hash", "Symbol"}
	for i := 0; i < 12; i++ {
		cl := Pick(r, classes)
		mc := m.Classes["Builtin::"+cl]
		if mc == nil {
			continue
		}
		names := make([]string, 0, len(mc.Instance))
		for nm, ms := range mc.Instance {
			if regexp.MustCompile(`^[a-z_]+[?]?$`).MatchString(nm) && len(ms[0].Params) <= 1 && len(ms[0].BlockParams) == 0 {
				names = append(names, nm)
			}
		}
		if len(names) == 0 {
			continue
		}
		sort.Strings(names)
		nm := Pick(r, names)
		mm := mc.Instance[nm][0]
		call := Pick(r, valueReceivers[cl]) + "." + nm
		if len(mm.Params) == 1 && !mm.Params[0].Default {
			call += "(" + literalFor(mm.Params[0].Type, r) + ")"
		}
		fmt.Fprintf(&sb, "zp%d = %s\ndbtp zp%d\n", i, call, i)
	}
	sb.WriteString("zpw = 3\nzpz = 2 * zpw\ndbtp zpz\nzpy = \"a\" + \"b\"\ndbtp zpy\n")
	return sb.String()
}

// unionCommonPrograms enumerates every ordered pair of value classes and every
// method name both declare: the call goes through a union receiver.
func unionCommonPrograms(r *RNG, m *CfgModel) []string {
	classes := []string{"Integer", "String", "Float", "Symbol", "NilClass", "Bool", "Array", "Hash", "Range"}
	var stmts []string
	n := 0
	for _, c1 := range classes {
		for _, c2 := range classes {
			if c1 == c2 {
				continue
			}
			m1, m2 := m.Classes["Builtin::"+c1], m.Classes["Builtin::"+c2]
			if m1 == nil || m2 == nil {
				continue
			}
			var names []string
			for nm := range m1.Instance {
				if _, ok := m2.Instance[nm]; ok {
					names = append(names, nm)
				}
			}
			sort.Strings(names)
			for _, nm := range names {
				mm := m1.Instance[nm][0]
				var args []string
				for _, p := range mm.Params {
					if p.Key != "" || p.Default || p.Rest {
						break
					}
					args = append(args, literalFor(p.Type, r))
				}
				n++
				recv := fmt.Sprintf("uc%d", n)
				decl := fmt.Sprintf("%s = flag ? %s : %s", recv, Pick(r, valueReceivers[c1]), Pick(r, valueReceivers[c2]))
				call := recv + "." + nm
				isOp := !regexp.MustCompile(`^[a-z_]`).MatchString(nm)
				switch {
				case isOp && len(args) == 1 && nm != "[]" && nm != "[]=":
					call = recv + " " + nm + " " + args[0]
				case isOp:
					continue
				case len(args) > 0:
					call += "(" + strings.Join(args, ", ") + ")"
				}
				stmts = append(stmts, decl+"\n"+fmt.Sprintf("rc%d = %s", n, call))
			}
		}
	}
	var progs []string
	for i := 0; i < len(stmts); i += 8 {
		j := i + 8
		if j > len(stmts) {
			j = len(stmts)
		}
		progs = append(progs, "flag = true\n"+strings.Join(stmts[i:j], "\n")+"\n")
	}
	return progs
}

func reopensBuiltin(src string, m *CfgModel) bool {
	for _, mm := range classNameRe.FindAllStringSubmatch(src, -1) {
		if m.Names[mm[1]] {
			return true
		}
	}
	for _, mc := range m.Classes {
		if mc.Frame != "Builtin" && regexp.MustCompile(`(?m)^\s*(class|module)\s+`+regexp.QuoteMeta(mc.Name)+`\b`).MatchString(src) {
			return true
		}
	}
	return false
}

func judgeTable(c *CheckCtx, s *Slot, tc *tableCase) *Violation {
	e := *tc.Exec
	e.Dump = true
	r := s.InProc().Run(&e)
	c.Eval(1)
	if !r.Normal() {
		c.Event("skipped_crash_or_hang", 1)
		return nil
	}
	c.Event("table_entries_compared", int64(r.DumpSize))
	if r.Stdout != "" {
		c.Nontrivial(e.Files[targetFile])
	}
	if len(r.DumpDiff) > 0 {
		d := r.DumpDiff[0]
		km := dumpKeyRe.FindStringSubmatch(d.Key)
		where := d.Key
		if km != nil {
			where = km[1] + "." + km[2]
			if km[3] != "" {
				where += ":param"
			}
		}
		sig := "mutated:" + where + ":" + firstFieldDiff(d.Before, d.After)
		return &Violation{Sig: sig, Kind: "table", Case: mustJSON(tc),
			What:     fmt.Sprintf("after analysing a %s program, %d entr(ies) of the configured builtin table differ from their state after loading .ti-config; first: %s", tc.Origin, len(r.DumpDiff), d.Key),
			Expected: clip(d.Before, 2500), Observed: clip(d.After, 2500)}
	}
	// black-box relation: probe block after the program vs alone
	if tc.Probe != "" {
		src := e.Files[targetFile]
		if !strings.HasSuffix(src, "\n") {
			src += "\n"
		}
		off := strings.Count(src, "\n")
		v := exploreThenJudge(c, s, func(rn Runner) *Violation {
			e1, e2 := srcExec(tc.Probe), srcExec(src+tc.Probe)
			e1.Config, e2.Config = e.Config, e.Config
			o1, ok1 := relRun(c, rn, e1)
			o2, ok2 := relRun(c, rn, e2)
			if !ok1 || !ok2 {
				return nil
			}
			want := parseOut(o1)
			got := mapRows(parseOut(o2), func(r int) (int, bool) {
				if r <= off {
					return 0, false
				}
				return r - off, true
			})
			c.Event("probe_blocks_compared", 1)
			if sameRecs(want, got) {
				return nil
			}
			return &Violation{Sig: "probe-depends-on-history:" + diffTemplate(want, got), Kind: "table", Case: mustJSON(tc),
				What:     "a probe block of builtin calls on fresh literals reports different types after a program than alone",
				Expected: clip(fmtRecs(want), 2500), Observed: clip(fmtRecs(got), 2500)}
		})
		return v
	}
	return nil
}

func init() {
	register(&Check{ID: "C12", Title: "analysis never alters configured builtin signatures",
		Replay: func(c *CheckCtx, s *Slot, v *Violation) *Violation {
			var tc tableCase
			if json.Unmarshal(v.Case, &tc) != nil || tc.Exec == nil {
				return nil
			}
			return judgeTable(c, s, &tc)
		},
		Run: func(c *CheckCtx) {
			if c.Eng.B.Degraded {
				c.Inconclusive("the builtin-table invariant needs the verif-tagged build, which failed")
				return
			}
			c.rule = "state-invariant hook at a quiescent point: after the check round of every in-process analysis the canonical rendering of every TFrame entry that existed after loading .ti-config (methods, their parameters, return types, flags, overloads, block parameters; the volatile beforeEvaluateCode excluded) is compared with its rendering after init. Programs: corpus programs that do not reopen configured classes, generated programs, and sweep programs calling configured methods on fresh, variable and union receivers with fitting and non-fitting arguments, blocks and keywords; subclasses of configured classes that redeclare a method with the same keyword names; generated configurations (keywords in any order and in front of positionals, overloads) whose every method is called and redeclared in a subclass. A share also runs the black-box relation out(P;Q)|Q == out(Q) for probe blocks Q of builtin calls on fresh literals. distinct_nontrivial = distinct programs with output"
			c.assumptions = []string{"the table rendering is produced by a verif-tagged hook inside the analyser process (the observation point the property names)", "programs that reopen a configured class are excluded, as the property states"}
			model, err := BuildModel(ShippedConfig())
			if err != nil {
				c.Inconclusive("cannot read the shipped configuration: " + err.Error())
				return
			}
			r := c.RNG.Sub(12)
			var jobs []*tableCase
			for _, it := range Corpus() {
				if reopensBuiltin(it.Source, model) {
					c.Event("corpus_programs_excluded_reopen_builtin", 1)
					continue
				}
				if c.Quick() && !r.Chance(1, 3) {
					continue
				}
				tc := &tableCase{Exec: srcExec(it.Source), Origin: "corpus"}
				if r.Chance(1, 4) {
					tc.Probe = probeBlock(r, model)
				}
				jobs = append(jobs, tc)
			}
			for k := 0; k < c.N(150, 5000); k++ {
				p := genProgram(r, GenOpts{Classes: true, Stmts: 6 + r.Intn(10)})
				tc := &tableCase{Exec: srcExec(p.Render(nil).Text()), Origin: "generated"}
				if r.Chance(1, 4) {
					tc.Probe = probeBlock(r, model)
				}
				jobs = append(jobs, tc)
			}
			for k := 0; k < c.N(400, 12000); k++ {
				tc := &tableCase{Exec: srcExec(sweepProgram(r, model, 6+r.Intn(10))), Origin: "sweep"}
				if r.Chance(1, 4) {
					tc.Probe = probeBlock(r, model)
				}
				jobs = append(jobs, tc)
			}
			// a subclass of a configured class that redeclares one of its methods,
			// with the same keyword names and defaults of another class
			for _, src := range []string{
				"class Zwkid < Test\n  def self.keyword_json_test(name: \"anonymous\")\n    name\n  end\nend\nZwkid.keyword_json_test\nZwkid.keyword_json_test(name: \"x\")\n",
				"class Zwkid < Test\n  def self.keyword_json_test2(name: 2.5)\n    name\n  end\nend\nZwkid.keyword_json_test2(name: :s)\n",
				"class Zwdir < Dir\n  def self.glob(pattern, flags = \"f\", base: 5)\n    base\n  end\nend\nZwdir.glob(\"*\")\nZwdir.glob(\"*\", \"g\", base: 7)\n",
			} {
				for q := 0; q < c.N(2, 6); q++ {
					jobs = append(jobs, &tableCase{Exec: srcExec(src), Origin: "subclass-redeclares-keywords", Probe: "zq1 = Test.keyword_json_test(name: 1)\ndbtp zq1\nTest.keyword_json_test(name: \"x\")\nTest.keyword_json_test2(name: \"s\")\nzq2 = Dir.glob(\"*\", 1, base: \"d\")\ndbtp zq2\nDir.glob(\"*\", 1, base: 5)\n"})
				}
			}
			// generated configurations: keywords declared in any order and before
			// positionals, overloads, unions; every method called, then redeclared in
			// a subclass with the same keyword names
			for k := 0; k < c.N(12, 200); k++ {
				classes := genClasses(r, 2+r.Intn(3), "")
				extra := map[string]string{}
				for _, cl := range classes {
					if r.Bool() {
						// a keyword in front of the positionals of one method
						for _, m := range cl.Methods {
							if len(m.Params) >= 2 && m.Params[len(m.Params)-1].Key != "" && m.Params[0].Key == "" {
								m.Params[0], m.Params[len(m.Params)-1] = m.Params[len(m.Params)-1], m.Params[0]
								break
							}
						}
					}
					extra["zz_"+strings.ToLower(cl.Name)+".json"] = cl.toJSON(Notation{}, r, nil)
				}
				cfg := cfgWith(extra)
				src := callProgram(r, classes)
				var sb strings.Builder
				for _, cl := range classes {
					for _, m := range cl.Methods {
						hasKw := false
						var ps []string
						for i, p := range m.Params {
							switch {
							case p.Key != "":
								hasKw = true
								ps = append(ps, p.Key+": "+Pick(r, []string{"\"zz\"", "2.5", ":zz", "[1]"}))
							case p.Rest:
								ps = append(ps, fmt.Sprintf("*r%d", i))
							default:
								ps = append(ps, fmt.Sprintf("p%d = nil", i))
							}
						}
						if !hasKw || m.Name == "new" {
							continue
						}
						self := ""
						recv := "Zw" + cl.Name + ".new."
						if m.Static {
							self = "self."
							recv = "Zw" + cl.Name + "."
						}
						fmt.Fprintf(&sb, "class Zw%s < %s\n  def %s%s(%s)\n    1\n  end\nend\n%s%s\n", cl.Name, cl.Name, self, m.Name, strings.Join(ps, ", "), recv, m.Name)
						break
					}
				}
				e := srcExec(src + sb.String())
				e.Config = cfg
				tc := &tableCase{Exec: e, Origin: "generated-config"}
				if r.Bool() {
					// (its own variable names: a failing assignment in the probe must not
					// find the type a variable of that name got in the program)
					tc.Probe = regexp.MustCompile(`\b([orhu])(\d)`).ReplaceAllString(callProgram(r, classes), "zq$1$2")
				}
				jobs = append(jobs, tc)
			}
			ucp := unionCommonPrograms(r, model)
			c.Extra("union_common_method_programs", len(ucp))
			for i, src := range ucp {
				_ = i
				jobs = append(jobs, &tableCase{Exec: srcExec(src), Origin: "union-common-methods", Probe: probeBlock(r, model)})
			}
			c.Extra("programs", len(jobs))
			c.Eng.Map(len(jobs), func(s *Slot, i int) {
				tc := jobs[i]
				if i%211 == 0 {
					c.Sample(map[string]any{"origin": tc.Origin, "source": clip(tc.Exec.Files[targetFile], 400)})
				}
				if v := judgeTable(c, s, tc); v != nil {
					c.Report(v)
				}
			})
		}})
}
