package main

import (
	"encoding/json"
	"fmt"
	"strings"
)

// ---------------------------------------------------------------------------
// C22: definition info and hover point at the right definition.
//
// Generated classes, modules and top-level methods; instance methods under
// public/private/protected sections, `def self.`, `class << self`, endless
// defs and signatures broken over lines. For every method: the -i hint on its
// def row tagged c/ or i/ with the visibility in effect, the --define record
// (queried on a call row of matching kind) naming the file and def row, and
// --hover on every call row showing that method.

type dMethod struct {
	Class  string `json:"class"` // "" = top level
	Name   string `json:"name"`
	Static bool   `json:"static"`
	Vis    string `json:"vis"`
	Row    int    `json:"row"` // def row
	Form   string `json:"form"`
	Calls  []int  `json:"calls"` // rows that contain a call of it
}

// nParams is the number of parameters the generator gives a method of a form.
func (m *dMethod) nParams() int {
	switch m.Form {
	case "multi", "endless-multi":
		return 2
	case "twin-static":
		return 3
	}
	return 1
}

type dCase struct {
	Source  string    `json:"source"`
	Methods []dMethod `json:"methods"`
}

func genDefs(r *RNG) *dCase {
	dc := &dCase{}
	var lines []string
	emit := func(s string) { lines = append(lines, s) }
	row := func() int { return len(lines) + 1 }
	scal := []string{"Integer", "String", "Float", "Symbol"}
	classNames := []string{"Alpha", "Beta", "Gamma"}
	ncls := 1 + r.Intn(3)
	mcount := 0
	newName := func(prefix string) string {
		mcount++
		return fmt.Sprintf("%s%d", prefix, mcount)
	}
	type pending struct {
		mi   int
		text string
	}
	var topCalls []pending
	for ci := 0; ci < ncls; ci++ {
		cname := classNames[ci]
		isModule := ci == ncls-1 && r.Chance(1, 4)
		if isModule {
			emit("module " + cname)
		} else {
			emit("class " + cname)
		}
		vis := "public"
		var hidden []int // private/protected instance methods of this class
		nm := 2 + r.Intn(5)
		for k := 0; k < nm; k++ {
			form := Pick(r, []string{"inst", "inst", "inst", "self", "meta", "endless", "multi", "endless-multi", "twin", "setter"})
			if isModule && form != "self" {
				form = Pick(r, []string{"inst", "self"})
			}
			// visibility sections (instance methods only are affected)
			if !isModule && r.Chance(1, 3) {
				v := Pick(r, []string{"private", "protected", "public"})
				if v != vis {
					emit("  " + v)
					vis = v
				}
			}
			ret := nLit(Pick(r, scal))
			if !isModule && vis != "public" && r.Chance(1, 5) {
				// a class nested in a private/protected section: its body starts public
				in := dMethod{Class: newName("Inner"), Name: newName("nm"), Vis: "public", Form: "nested-class-in-" + vis}
				emit("  class " + in.Class)
				in.Row = row()
				emit("    def " + in.Name + "(a = 1)")
				emit("      " + ret)
				emit("    end")
				emit("  end")
				dc.Methods = append(dc.Methods, in)
			}
			m := dMethod{Class: cname, Form: form, Vis: "public"}
			switch form {
			case "inst":
				m.Name = newName("im")
				m.Vis = vis
				m.Row = row()
				emit("  def " + m.Name + "(a = 1)")
				emit("    " + ret)
				emit("  end")
			case "setter":
				// an attribute writer written out: a method like any other
				m.Name = newName("sv") + "="
				m.Vis = vis
				m.Row = row()
				emit("  def " + m.Name + "(a)")
				emit("    @held = a")
				emit("  end")
			case "endless":
				m.Name = newName("em")
				m.Vis = vis
				m.Row = row()
				emit("  def " + m.Name + "(a = 1) = " + ret)
			case "endless-multi":
				// an endless def whose parameter list spans rows: its row is the def's
				m.Name = newName("xm")
				m.Vis = vis
				m.Row = row()
				emit("  def " + m.Name + "(a = 1,")
				emit("        b = 2) = " + ret)
			case "twin":
				// an instance method and a class method of one name: each call hovers its own
				m.Name = newName("tw")
				m.Vis = vis
				m.Row = row()
				emit("  def " + m.Name + "(a = 1)")
				emit("    " + ret)
				emit("  end")
				twin := dMethod{Class: cname, Name: m.Name, Static: true, Vis: "public", Form: "twin-static"}
				twin.Row = row()
				emit("  def self." + m.Name + "(a = 1, b = 2, c = 3)")
				emit("    " + ret)
				emit("  end")
				dc.Methods = append(dc.Methods, twin)
				topCalls = append(topCalls, pending{len(dc.Methods) - 1, cname + "." + m.Name})
			case "multi":
				m.Name = newName("mm")
				m.Vis = vis
				m.Row = row()
				emit("  def " + m.Name + "(a = 1,")
				emit("        b = 2)")
				emit("    " + ret)
				emit("  end")
			case "self":
				m.Name = newName("sm")
				m.Static = true
				m.Row = row()
				emit("  def self." + m.Name + "(a = 1)")
				emit("    " + ret)
				emit("  end")
			case "meta":
				m.Name = newName("cm")
				m.Static = true
				emit("  class << self")
				// the singleton body has sections of its own; the section of the class
				// body it is written in continues after it
				if r.Chance(1, 3) {
					kw := Pick(r, []string{"private", "protected"})
					if vis != "public" && r.Bool() {
						kw = vis
					}
					emit("    " + kw)
					m.Vis = kw
					m.Form = "meta-" + kw
				}
				m.Row = row()
				emit("    def " + m.Name + "(a = 1)")
				emit("      " + ret)
				emit("    end")
				emit("  end")
			}
			dc.Methods = append(dc.Methods, m)
			mi := len(dc.Methods) - 1
			switch {
			case m.Static && m.Vis != "public":
				// a private/protected class method: not callable from the top level
			case m.Static:
				topCalls = append(topCalls, pending{mi, cname + "." + m.Name})
			case isModule:
				// an instance method of a module: called through an including class below
			case form == "setter":
				// (assignment syntax: no call row is hovered for it)
			case m.Vis == "public":
				topCalls = append(topCalls, pending{mi, "o" + strings.ToLower(cname) + "." + m.Name})
			default:
				hidden = append(hidden, mi)
			}
		}
		if len(hidden) > 0 {
			if vis != "public" {
				emit("  public")
				vis = "public"
			}
			via := dMethod{Class: cname, Name: newName("via"), Vis: "public", Form: "inst"}
			via.Row = row()
			emit("  def " + via.Name + "(a = 1)")
			for _, hi := range hidden {
				dc.Methods[hi].Calls = append(dc.Methods[hi].Calls, row())
				if dc.Methods[hi].Vis == "protected" && r.Bool() {
					emit("    self." + dc.Methods[hi].Name)
				} else {
					emit("    " + dc.Methods[hi].Name)
				}
			}
			emit("    1")
			emit("  end")
			dc.Methods = append(dc.Methods, via)
			topCalls = append(topCalls, pending{len(dc.Methods) - 1, "o" + strings.ToLower(cname) + "." + via.Name})
		}
		emit("end")
		if !isModule {
			emit("o" + strings.ToLower(cname) + " = " + cname + ".new")
		}
	}
	// top-level methods
	for k := 0; k < r.Intn(3); k++ {
		m := dMethod{Name: newName("top"), Vis: "public", Form: "top"}
		m.Row = row()
		if r.Chance(1, 3) {
			m.Form = "top-endless"
			emit("def " + m.Name + "(a = 1) = " + nLit(Pick(r, scal)))
		} else {
			emit("def " + m.Name + "(a = 1)")
			emit("  " + nLit(Pick(r, scal)))
			emit("end")
		}
		dc.Methods = append(dc.Methods, m)
		topCalls = append(topCalls, pending{len(dc.Methods) - 1, m.Name})
	}
	Shuffle(r, topCalls)
	for _, pc := range topCalls {
		dc.Methods[pc.mi].Calls = append(dc.Methods[pc.mi].Calls, row())
		switch r.Intn(3) {
		case 0:
			emit(pc.text)
		case 1:
			emit(pc.text + "(2)")
		default:
			emit("v = " + pc.text + "(3)")
		}
	}
	dc.Source = strings.Join(lines, "\n") + "\n"
	return dc
}

func judgeDefs(c *CheckCtx, rn Runner, dc *dCase) *Violation {
	mk := func(sig, what, out string) *Violation {
		return &Violation{Sig: sig, Kind: "definitions", Case: mustJSON(dc), What: what, Observed: clip(out, 3000)}
	}
	files := map[string]string{targetFile: dc.Source}
	out, ok := relRun(c, rn, &Exec{Files: files, Argv: []string{targetFile, "-i"}})
	if !ok {
		c.Event("skipped_crash_or_hang", 1)
		return nil
	}
	c.Nontrivial(dc.Source)
	hints := map[int][]string{}
	for _, r := range parseOut(out) {
		if r.Hint && r.Row > 0 {
			hints[r.Row] = append(hints[r.Row], r.Msg)
		} else if r.Row > 0 {
			return mk("diagnostic:"+msgTemplate(r.Msg), fmt.Sprintf("row %d: the generated program is valid Ruby without misuse, ti reports: %s", r.Row, r.Msg), out)
		}
	}
	for _, m := range dc.Methods {
		c.Event("signature_hints_judged", 1)
		tag := "i/"
		if m.Static {
			tag = "c/"
		}
		var sig []string
		for _, h := range hints[m.Row] {
			if x := sigLineRe.FindStringSubmatch(h); x != nil {
				sig = x
			}
		}
		feat := m.Form + ":" + m.Vis
		if sig == nil {
			return mk("signature-hint-missing:"+feat, fmt.Sprintf("method %s (def on row %d): no `(...) -> T [%s%s]` hint on that row", m.Name, m.Row, tag, m.Vis), out)
		}
		if sig[3]+"/" != tag || sig[4] != m.Vis {
			return mk("signature-hint-tag:"+feat+":"+sig[3]+"/"+sig[4], fmt.Sprintf("method %s (def on row %d) is %s%s, the hint says [%s/%s]", m.Name, m.Row, tag, m.Vis, sig[3], sig[4]), out)
		}
	}
	// --define on one instance call row and one class-method call row
	queried := map[bool]bool{}
	for _, m := range dc.Methods {
		if len(m.Calls) == 0 || queried[m.Static] {
			continue
		}
		queried[m.Static] = true
		dout, ok := relRun(c, rn, &Exec{Files: files, Argv: []string{targetFile, "--define", fmt.Sprintf("--row=%d", m.Calls[0])}})
		if !ok {
			continue
		}
		recs := map[string]string{}
		for _, l := range strings.Split(dout, "\n") {
			f := strings.Split(l, ":::")
			if len(f) == 5 && strings.HasPrefix(f[0], "%") {
				recs[f[1]+"\x00"+f[2]] = f[3] + ":::" + f[4]
			}
		}
		for _, o := range dc.Methods {
			if o.Static != m.Static {
				continue
			}
			c.Event("define_records_judged", 1)
			got, ok := recs[o.Class+"\x00"+o.Name]
			want := fmt.Sprintf("%s:::%d", targetFile, o.Row)
			feat := o.Form + ":" + o.Vis
			if !ok {
				return mk("define-record-missing:"+feat, fmt.Sprintf("--define --row=%d lists no record for %s.%s (def on row %d)", m.Calls[0], o.Class, o.Name, o.Row), dout)
			}
			if got != want {
				return mk("define-record-row:"+feat, fmt.Sprintf("--define record of %s.%s says %s, its def is %s", o.Class, o.Name, got, want), dout)
			}
		}
	}
	// --hover on every call row
	for _, m := range dc.Methods {
		for _, cr := range m.Calls {
			hout, ok := relRun(c, rn, &Exec{Files: files, Argv: []string{targetFile, "--hover", fmt.Sprintf("--row=%d", cr)}})
			if !ok {
				continue
			}
			c.Event("hovers_judged", 1)
			wantPrefix := "%" + m.Name + ":::" + m.Class + "." + m.Name + "("
			if m.Class == "" {
				wantPrefix = "%" + m.Name + ":::" + m.Name + "("
			}
			// the called method's own signature must be shown (two methods may share
			// class and name: an instance and a class method; they differ in arity)
			var line string
			found := false
			for _, l := range strings.Split(hout, "\n") {
				if !strings.HasPrefix(l, "%") {
					continue
				}
				if line == "" {
					line = l
				}
				if strings.HasPrefix(l, wantPrefix) {
					rest := l[len(wantPrefix):]
					if end := strings.Index(rest, ") -> "); end >= 0 && len(splitTop(rest[:end])) == m.nParams() {
						found = true
					}
				}
			}
			feat := m.Form + ":" + m.Vis
			if !found {
				return mk("hover-wrong-method:"+feat, fmt.Sprintf("--hover --row=%d (a call of %s.%s, %d parameter(s)) shows %q", cr, m.Class, m.Name, m.nParams(), line), hout)
			}
		}
	}
	return nil
}

func init() {
	register(&Check{ID: "C22", Title: "definition info and hover point at the right definition",
		Replay: func(c *CheckCtx, s *Slot, v *Violation) *Violation {
			var dc dCase
			if json.Unmarshal(v.Case, &dc) != nil {
				return nil
			}
			return judgeDefs(c, s.BlackBox(), &dc)
		},
		Run: func(c *CheckCtx) {
			c.rule = "generated programs: 1-3 classes/modules with 2-6 methods each (instance methods under public/private/protected sections, def self., class << self, endless defs, signatures broken over two lines) and 0-2 top-level methods (also endless); every method is called on its own row (public ones and class methods at top level, private/protected ones from a public method of the class, with and without `self.`). Oracle: -i prints `(...) -> T [c|i/visibility]` on each def row with the right tag and the visibility in effect; --define --row=<call row> lists a `%frame:::class:::method:::file:::row` record with the def row for every method of the same kind; --hover --row=<call row> names the called method and its class; no diagnostics. distinct_nontrivial = distinct programs"
			r := c.RNG.Sub(22)
			n := c.N(150, 4000)
			jobs := make([]*dCase, n)
			for i := range jobs {
				jobs[i] = genDefs(r)
			}
			c.Eng.Map(n, func(s *Slot, i int) {
				dc := jobs[i]
				if i%37 == 0 {
					c.Sample(map[string]any{"program": clip(dc.Source, 1200)})
				}
				if v := exploreThenJudge(c, s, func(rn Runner) *Violation { return judgeDefs(c, rn, dc) }); v != nil {
					c.Report(v)
				}
			})
		}})
}
